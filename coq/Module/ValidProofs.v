(* The documented effects of the transformations (Module/Transforms.v), applied to a well-formed flat program
   (Lang/FixProofs.v), yield well-formed flat programs again: by the fixpoint theorem the visitor model then
   ACCEPTS the transformed program (validate and unroll) and unrolls it to itself -- "yields a valid program",
   "calling unroll() again changes nothing", for every program, of any size. *)
From Coq Require Import ZArith List Bool String Lia FinFun.
From Verif Require Import Aexp BGate PyVal CastPrim Ast State Arr GatesGen GateLib Unroll ResolveProofs Depth DepthModel FixProofs
                          Transforms TransformProofs.
Import ListNotations.
Open Scope string_scope.
Open Scope list_scope.
Open Scope Z_scope.

(* the registers in force after a well-formed prefix *)
Fixpoint env_after (env : renv) (l : list stmt) : renv :=
  match l with
  | [] => env
  | stm :: l' => match top_step env stm with Some env' => env_after env' l' | None => env end
  end.

Lemma wf_flat_app env a : forall b, wf_flat env a = true -> wf_flat env (a ++ b) = wf_flat (env_after env a) b.
Proof.
  revert env. induction a as [|x a IH]; intros env b H; [reflexivity|].
  cbn [wf_flat app env_after] in *. destruct (top_step env x) as [env'|]; [now apply IH|discriminate].
Qed.

Lemma sset_fresh {V} x (v : V) l : sget x l = None -> sset x v l = l ++ [(x, v)].
Proof.
  unfold sget, sset. induction l as [|[k w] l IH]; cbn; [reflexivity|].
  destruct (String.eqb x k); [discriminate|]. intros H. now rewrite (IH H).
Qed.

Lemma op_ok_not_decl env stm : op_ok env stm = true ->
  (forall n sz, stm <> SQubitDecl n sz) /\ (forall t n i, stm <> SClassicalDecl t n i).
Proof. destruct stm; cbn [op_ok]; try discriminate; intros _; split; intros; discriminate. Qed.

(* the qubit registers in force are the declarations of the program, in order *)
Lemma env_after_q l : forall env, wf_flat env l = true -> e_q (env_after env l) = e_q env ++ qregs_of l.
Proof.
  induction l as [|stm l IH]; intros env H; cbn [env_after qregs_of wf_flat] in *; [now rewrite app_nil_r|].
  destruct (top_step env stm) as [env'|] eqn:Es; [|discriminate]. rewrite (IH env' H).
  destruct stm; cbn [top_step] in Es;
    try (destruct (op_ok env _) eqn:Ho in Es; [inversion Es; subst env'; reflexivity|discriminate]).
  - (* include *) destruct (smem file (e_inc env)); [discriminate|]. inversion Es; subst. reflexivity.
  - (* qubit declaration *)
    destruct size as [e|]; [|cbn [op_ok] in Es; discriminate].
    destruct e; try (cbn [op_ok] in Es; discriminate). destruct v; try (cbn [op_ok] in Es; discriminate).
    destruct (fresh_name env name && (1 <=? z) && (z <? 100000)) eqn:Ec; [|discriminate]. inversion Es; subst env'. cbn [e_q].
    apply andb_true_iff in Ec as [Ec _]. apply andb_true_iff in Ec as [F _]. unfold fresh_name in F.
    destruct (sget name (e_q env)) eqn:Eq; [discriminate|]. rewrite (sset_fresh _ _ _ Eq). now rewrite <- app_assoc.
  - (* classical declaration *)
    destruct t; try (cbn [op_ok] in Es; discriminate).
    destruct size as [e|]; [|cbn [op_ok] in Es; discriminate].
    destruct e; try (cbn [op_ok] in Es; discriminate). destruct v; try (cbn [op_ok] in Es; discriminate).
    destruct (fresh_name env name && (1 <=? z) && (z <? 100000) && bit_init_ok init); [|discriminate]. inversion Es; subst. reflexivity.
Qed.

Lemma NoDup_app_one {A} (l : list A) x : NoDup l -> ~ In x l -> NoDup (l ++ [x]).
Proof.
  induction l as [|y l IH]; intros N H; cbn; [constructor; [intros []|constructor]|].
  inversion N; subst. constructor.
  - intros Hin. apply in_app_or in Hin as [Hin|[->|[]]]; [contradiction|apply H; now left].
  - apply IH; [assumption|]. intros Hx. apply H. now right.
Qed.

(* ... under pairwise distinct names *)
Lemma env_after_nodup l : forall env, wf_flat env l = true -> NoDup (map fst (e_q env)) -> NoDup (map fst (e_q (env_after env l))).
Proof.
  induction l as [|stm l IH]; intros env H N; cbn [env_after wf_flat] in *; [exact N|].
  destruct (top_step env stm) as [env'|] eqn:Es; [|discriminate]. apply (IH env' H).
  destruct stm; cbn [top_step] in Es;
    try (destruct (op_ok env _) eqn:Ho in Es; [inversion Es; subst env'; exact N|discriminate]).
  - destruct (smem file (e_inc env)); [discriminate|]. inversion Es; subst. exact N.
  - destruct size as [e|]; [|cbn [op_ok] in Es; discriminate].
    destruct e; try (cbn [op_ok] in Es; discriminate). destruct v; try (cbn [op_ok] in Es; discriminate).
    destruct (fresh_name env name && (1 <=? z) && (z <? 100000)) eqn:Ec; [|discriminate]. inversion Es; subst env'. cbn [e_q].
    apply andb_true_iff in Ec as [Ec _]. apply andb_true_iff in Ec as [F _]. unfold fresh_name in F.
    destruct (sget name (e_q env)) eqn:Eq; [discriminate|]. rewrite (sset_fresh _ _ _ Eq), map_app. cbn [map fst].
    apply NoDup_app_one; [exact N|]. intros Hin. apply in_map_iff in Hin as ([k w] & Hk & Hin). cbn in Hk. subst k.
    clear - Eq Hin. unfold sget in Eq. induction (e_q env) as [|[k' w'] l IH]; [contradiction|]. cbn in Eq.
    destruct (String.eqb_spec name k'); [discriminate|]. destruct Hin as [E|Hin]; [inversion E; congruence|auto].
  - destruct t; try (cbn [op_ok] in Es; discriminate).
    destruct size as [e|]; [|cbn [op_ok] in Es; discriminate].
    destruct e; try (cbn [op_ok] in Es; discriminate). destruct v; try (cbn [op_ok] in Es; discriminate).
    destruct (fresh_name env name && (1 <=? z) && (z <? 100000) && bit_init_ok init); [|discriminate]. inversion Es; subst. exact N.
Qed.

(* ---------- populate_idle_qubits ---------- *)
Lemma sget_of_nodup (regs : list (string * Z)) r n : NoDup (map fst regs) -> In (r, n) regs -> sget r regs = Some n.
Proof.
  unfold sget. induction regs as [|[k w] regs IH]; intros N H; [contradiction|]. cbn [map fst] in N. inversion N; subst.
  cbn. destruct (String.eqb_spec r k) as [->|Nk].
  - destruct H as [E|H]; [inversion E; reflexivity|]. exfalso. apply H2. apply in_map_iff. exists (k, n). auto.
  - destruct H as [E|H]; [inversion E; congruence|auto].
Qed.

Lemma all_qubits_in_reg regs b : NoDup (map fst regs) -> In b (all_qubits regs) -> in_reg regs b = true.
Proof.
  intros N H. unfold all_qubits in H. apply in_flat_map in H as ([r n] & Hr & Hb). cbn [fst snd] in Hb.
  apply in_map_iff in Hb as (i & <- & Hi). unfold range_z in Hi. apply in_map_iff in Hi as (k & <- & Hk). apply in_seq in Hk.
  unfold in_reg. cbn [fst snd]. rewrite (sget_of_nodup regs r n N Hr).
  apply andb_true_iff. split; [apply Z.leb_le|apply Z.ltb_lt]; lia.
Qed.

Lemma id_gates_wf env l : forallb (in_reg (e_q env)) l = true -> wf_flat env (map id_gate l) = true.
Proof.
  induction l as [|b l IH]; intros H; [reflexivity|]. cbn [forallb] in H. apply andb_true_iff in H as [Hb H].
  cbn [map wf_flat]. unfold id_gate at 1.
  assert (top_step env (SGate [] "id" [] [bit_qarg b]) = Some env) as ->; [|now apply IH].
  cbn [top_step op_ok mapM]. change (bit_qarg b) with (qarg_of b). rewrite lit_bit_of. cbn [assoc self_basis String.eqb Ascii.eqb Bool.eqb].
  cbn [List.length Nat.eqb forallb distinctb existsb negb andb]. now rewrite Hb.
Qed.

Theorem populate_keeps_wellformed p : wf_flat env0 p = true -> wf_flat env0 (populate p) = true.
Proof.
  intros H. unfold populate. rewrite (wf_flat_app env0 p _ H). apply id_gates_wf.
  rewrite (env_after_q p env0 H). cbn [e_q env0 app]. apply forallb_forall. intros b Hb.
  apply all_qubits_in_reg.
  - pose proof (env_after_nodup p env0 H) as N. rewrite (env_after_q p env0 H) in N. cbn [e_q env0 app map] in N. apply N. constructor.
  - unfold idle_qubits in Hb. apply filter_In in Hb as [Hb _]. exact Hb.
Qed.

(* ---------- reverse_qubit_order ---------- *)
Section Rev.
Variable R : list (string * Z).          (* the registers of the whole program *)
Notation f := (rev_bit R).

Definition agrees (env : renv) : Prop := forall r n, sget r (e_q env) = Some n -> sget r R = Some n.

Lemma map_qarg_lit q b : lit_bit q = Some b -> map_qarg f q = qarg_of (f b).
Proof. intros H. rewrite (lit_bit_qarg_of q b H). unfold map_qarg. change (qarg_bit (qarg_of b)) with (lit_bit (qarg_of b)). now rewrite lit_bit_of. Qed.
Lemma mapM_map_qarg qs bs : mapM lit_bit qs = Some bs -> mapM lit_bit (map (map_qarg f) qs) = Some (map f bs).
Proof.
  revert bs. induction qs as [|q qs IH]; intros bs H; cbn [mapM map] in *; [inversion H; reflexivity|].
  destruct (lit_bit q) as [b|] eqn:Eb; [|discriminate]. destruct (mapM lit_bit qs) as [bs'|]; [|discriminate]. inversion H; subst.
  rewrite (map_qarg_lit q b Eb), lit_bit_of, (IH bs' eq_refl). reflexivity.
Qed.

Lemma rev_in_reg env b : agrees env -> in_reg (e_q env) b = true -> in_reg (e_q env) (f b) = true.
Proof.
  intros A H. unfold in_reg in *. destruct b as [r i]. cbn [fst snd] in *.
  destruct (sget r (e_q env)) as [n|] eqn:E; [|discriminate]. unfold rev_bit. cbn [fst snd]. rewrite (A r n E). cbn [fst snd]. rewrite E.
  apply andb_true_iff in H as [H0 H1]. apply Z.leb_le in H0. apply Z.ltb_lt in H1.
  apply andb_true_iff. split; [apply Z.leb_le|apply Z.ltb_lt]; lia.
Qed.

Lemma rev_inj env a b : agrees env -> in_reg (e_q env) a = true -> in_reg (e_q env) b = true -> f a = f b -> a = b.
Proof.
  intros A Ha Hb E. unfold in_reg in *. destruct a as [r i], b as [r' i']. cbn [fst snd] in *.
  destruct (sget r (e_q env)) as [n|] eqn:E1; [|discriminate]. destruct (sget r' (e_q env)) as [n'|] eqn:E2; [|discriminate].
  unfold rev_bit in E. cbn [fst snd] in E. rewrite (A r n E1), (A r' n' E2) in E. inversion E; subst r'.
  rewrite E1 in E2. inversion E2; subst n'. f_equal. lia.
Qed.

Lemma rev_distinct env l : forall acc, agrees env ->
  forallb (in_reg (e_q env)) acc = true -> forallb (in_reg (e_q env)) l = true ->
  distinctb acc l = true -> distinctb (map f acc) (map f l) = true.
Proof.
  induction l as [|b l IH]; intros acc A Hacc Hl Hd; [reflexivity|].
  cbn [forallb] in Hl. apply andb_true_iff in Hl as [Hb Hl]. cbn [distinctb map] in *.
  apply andb_true_iff in Hd as [Hn Hd]. apply andb_true_iff. split.
  - apply negb_true_iff. apply negb_true_iff in Hn. destruct (existsb (bitref_eqb (f b)) (map f acc)) eqn:E; [|reflexivity].
    apply existsb_exists in E as (y & Hy & Ey). apply in_map_iff in Hy as (a & <- & Ha).
    destruct (bitref_eqb_spec (f b) (f a)) as [Efa|]; [|discriminate].
    assert (b = a) by (eapply rev_inj; eauto; eapply forallb_forall in Hacc; eauto). subst a.
    assert (existsb (bitref_eqb b) acc = true); [|congruence]. apply existsb_exists. exists b. split; [exact Ha|]. destruct (bitref_eqb_spec b b); congruence.
  - replace (map f acc ++ [f b]) with (map f (acc ++ [b])) by (rewrite map_app; reflexivity).
    apply IH; auto. rewrite forallb_app. cbn [forallb]. now rewrite Hacc, Hb.
Qed.

Lemma rev_op_ok n : forall stm env, (sdepth stm < n)%nat -> agrees env -> op_ok env stm = true ->
  op_ok env (map_qubits f stm) = true.
Proof.
  induction n as [|n IH]; intros stm env Hd A Hok; [lia|].
  destruct stm; try discriminate Hok; cbn [map_qubits].
  - (* gate *)
    cbn [op_ok] in *. destruct mods; [|discriminate Hok].
    destruct (mapM lit_bit qubits) as [bs|] eqn:Eb; [|discriminate Hok]. rewrite (mapM_map_qarg _ _ Eb).
    destruct (mapM lit_num args) as [vs|]; [|discriminate Hok]. destruct (assoc name self_basis) as [[np k]|]; [|discriminate Hok].
    apply andb_true_iff in Hok as [Hok Hdi]. apply andb_true_iff in Hok as [Hok Hin]. apply andb_true_iff in Hok as [Hv Hb].
    rewrite Hv, map_length, Hb. cbn [andb].
    apply andb_true_iff. split.
    + rewrite forallb_forall in *. intros y Hy. apply in_map_iff in Hy as (b & <- & Hb'). apply rev_in_reg; auto.
    + change (@nil bitref) with (map f []). apply (rev_distinct env bs [] A eq_refl Hin Hdi).
  - (* gphase *) cbn [op_ok] in *. destruct mods; [|discriminate Hok]. destruct arg; try discriminate Hok. destruct qubits; [|discriminate Hok]. exact Hok.
  - (* measure *)
    cbn [op_ok] in *. destruct target as [t|]; [|discriminate Hok].
    destruct (lit_bit q) as [a|] eqn:Ea; [|discriminate Hok]. destruct (lit_bit t) as [b|] eqn:Eb; [|discriminate Hok].
    rewrite (map_qarg_lit q a Ea), lit_bit_of. apply andb_true_iff in Hok as [Ha Hb]. rewrite Hb, andb_true_r. now apply rev_in_reg.
  - (* reset *)
    cbn [op_ok] in *. destruct (lit_bit q) as [a|] eqn:Ea; [|discriminate Hok]. rewrite (map_qarg_lit q a Ea), lit_bit_of. now apply rev_in_reg.
  - (* barrier *)
    cbn [op_ok] in *. destruct qs as [|q [|]]; try discriminate Hok. cbn [map].
    destruct (lit_bit q) as [a|] eqn:Ea; [|discriminate Hok]. rewrite (map_qarg_lit q a Ea), lit_bit_of. now apply rev_in_reg.
  - (* conditional *)
    cbn [op_ok] in *. rewrite !op_ok_block in *.
    destruct cond; try discriminate Hok. destruct cond2; try discriminate Hok.
    apply andb_true_iff in Hok as [Hok He]. apply andb_true_iff in Hok as [Hok Ht]. apply andb_true_iff in Hok as [Hok Hne].
    cbn [sdepth] in Hd. rewrite (sdepth_block then_), (sdepth_block else_) in Hd.
    assert (Hblock : forall l, forallb (op_ok env) l = true -> (ldepth l < n)%nat ->
              forallb (op_ok env) ((fix go (l : list stmt) : list stmt := match l with [] => [] | x :: l' => map_qubits f x :: go l' end) l) = true
              /\ (l <> [] -> (fix go (l : list stmt) : list stmt := match l with [] => [] | x :: l' => map_qubits f x :: go l' end) l <> [])).
    { induction l as [|x l IHl]; intros Hl Hdl; [split; [reflexivity|congruence]|].
      cbn [forallb] in Hl. apply andb_true_iff in Hl as [Hx Hl]. unfold ldepth in Hdl. cbn [fold_right] in Hdl. fold (ldepth l) in Hdl.
      split; [|discriminate]. cbn [forallb]. rewrite (IH x env) by (auto; lia). apply (IHl Hl). lia. }
    destruct (Hblock then_ Ht) as [Ht' Hne']; [lia|]. destruct (Hblock else_ He) as [He' _]; [lia|].
    rewrite Hok, Ht', He'. cbn [andb]. rewrite andb_true_r.
    destruct then_ as [|x t]; [discriminate Hne|]. reflexivity.
Qed.
End Rev.

Lemma sget_app_l {V} x (a b : list (string * V)) v : sget x a = Some v -> sget x (a ++ b) = Some v.
Proof. unfold sget. induction a as [|[k w] a IH]; cbn; [discriminate|]. destruct (String.eqb x k); auto. Qed.

Lemma top_step_op env stm env' : top_step env stm = Some env' ->
  (top_step env stm = (if op_ok env stm then Some env else None) /\ op_ok env stm = true /\ env' = env) \/
  (op_ok env stm = false /\ forall g, map_qubits g stm = stm).
Proof.
  intros H. destruct (op_ok env stm) eqn:Ho.
  - left. destruct stm; try (exfalso; cbn [op_ok] in Ho; discriminate Ho); cbn [top_step] in *; rewrite Ho in *;
      (split; [reflexivity|split; [reflexivity|now inversion H]]).
  - right. split; [reflexivity|]. intros g. destruct stm; try reflexivity; cbn [top_step] in H; rewrite ?Ho in H; discriminate H.
Qed.

Lemma rev_program R l : forall env, wf_flat env l = true -> agrees R (env_after env l) ->
  wf_flat env (map (map_qubits (rev_bit R)) l) = true.
Proof.
  induction l as [|stm l IH]; intros env H A; [reflexivity|]. cbn [wf_flat map env_after] in *.
  destruct (top_step env stm) as [env'|] eqn:Es; [|discriminate].
  destruct (top_step_op env stm env' Es) as [(Et & Ho & ->)|(Ho & Hid)].
  - assert (Ae : agrees R env).
    { intros r n Hr. apply A. rewrite (env_after_q l env H). now apply sget_app_l. }
    pose proof (rev_op_ok R (S (sdepth stm)) stm env (Nat.lt_succ_diag_r _) Ae Ho) as Ho'.
    assert (top_step env (map_qubits (rev_bit R) stm) = Some env) as ->; [|now apply IH].
    destruct stm; try (exfalso; cbn [op_ok] in Ho; discriminate Ho); cbn [map_qubits top_step] in *; now rewrite Ho'.
  - rewrite Hid, Es. now apply IH.
Qed.

Theorem reverse_keeps_wellformed p : wf_flat env0 p = true -> wf_flat env0 (reverse_qubits p) = true.
Proof.
  intros H. unfold reverse_qubits. apply rev_program; [exact H|].
  intros r n Hr. rewrite (env_after_q p env0 H) in Hr. exact Hr.
Qed.

(* ---------- what the visitor model does with the transformed program ---------- *)
Lemma total_qubits_app a b : total_qubits (a ++ b) = total_qubits a + total_qubits b.
Proof. unfold total_qubits. induction a as [|x a IH]; cbn [app fold_right]; [reflexivity|]. rewrite IH. lia. Qed.
Lemma total_qubits_ids l : total_qubits (map id_gate l) = 0.
Proof. unfold total_qubits. induction l as [|b l IH]; [reflexivity|]. cbn [map fold_right]. rewrite IH. reflexivity. Qed.
Lemma decl_q_map_qubits g stm : decl_q (map_qubits g stm) = decl_q stm.
Proof. destruct stm; reflexivity. Qed.
Lemma total_qubits_map_qubits g l : total_qubits (map (map_qubits g) l) = total_qubits l.
Proof. unfold total_qubits. induction l as [|x l IH]; [reflexivity|]. cbn [map fold_right]. now rewrite IH, decl_q_map_qubits. Qed.

Theorem populated_program_is_valid_and_stable fuel p :
  wf_flat env0 p = true -> (ldepth (populate p) < fuel)%nat ->
  (exists o, run_visit false true [] fuel (populate p) = Ok o /\ num_qubits (o_state o) = total_qubits p) /\
  (exists o, run_visit false false [] fuel (populate p) = Ok o /\ o_stmts o = populate p /\ num_qubits (o_state o) = total_qubits p).
Proof.
  intros H Hf. destruct (wf_flat_is_accepted_and_a_fixpoint fuel (populate p) (populate_keeps_wellformed p H) Hf)
    as [(o1 & E1 & N1 & _) (o2 & E2 & Ho & N2 & _)].
  assert (T : total_qubits (populate p) = total_qubits p) by (unfold populate; rewrite total_qubits_app, total_qubits_ids; lia).
  split; [exists o1; split; [exact E1|congruence]|exists o2; split; [exact E2|split; [exact Ho|congruence]]].
Qed.

Theorem reversed_program_is_valid_and_stable fuel p :
  wf_flat env0 p = true -> (ldepth (reverse_qubits p) < fuel)%nat ->
  (exists o, run_visit false true [] fuel (reverse_qubits p) = Ok o /\ num_qubits (o_state o) = total_qubits p) /\
  (exists o, run_visit false false [] fuel (reverse_qubits p) = Ok o /\ o_stmts o = reverse_qubits p /\ num_qubits (o_state o) = total_qubits p).
Proof.
  intros H Hf. destruct (wf_flat_is_accepted_and_a_fixpoint fuel (reverse_qubits p) (reverse_keeps_wellformed p H) Hf)
    as [(o1 & E1 & N1 & _) (o2 & E2 & Ho & N2 & _)].
  assert (T : total_qubits (reverse_qubits p) = total_qubits p) by (unfold reverse_qubits; apply total_qubits_map_qubits).
  split; [exists o1; split; [exact E1|congruence]|exists o2; split; [exact E2|split; [exact Ho|congruence]]].
Qed.

(* ---------- remove_measurements / remove_barriers / remove_includes ---------- *)
Definition same_regs (a b : renv) : Prop := e_q a = e_q b /\ e_c a = e_c b.

Lemma op_ok_ext n : forall stm a b, (sdepth stm < n)%nat -> same_regs a b -> op_ok a stm = op_ok b stm.
Proof.
  induction n as [|n IH]; intros stm a b Hd [Eq Ec]; [lia|].
  destruct stm; try reflexivity; try (cbn [op_ok]; rewrite ?Eq, ?Ec; reflexivity).
  (* conditional *)
  cbn [op_ok]. rewrite !op_ok_block. cbn [sdepth] in Hd. rewrite (sdepth_block then_), (sdepth_block else_) in Hd.
  assert (Hb : forall l, (ldepth l < n)%nat -> forallb (op_ok a) l = forallb (op_ok b) l).
  { induction l as [|x l IHl]; intros Hl; [reflexivity|]. unfold ldepth in Hl. cbn [fold_right] in Hl. fold (ldepth l) in Hl.
    cbn [forallb]. rewrite (IH x a b) by (try lia; split; assumption). rewrite IHl by lia. reflexivity. }
  destruct cond; try reflexivity. destruct cond2; try reflexivity.
  unfold cond_ok. rewrite !Ec, (Hb then_), (Hb else_) by lia. reflexivity.
Qed.

Lemma rk_block (k : kind) (l : list stmt) :
  (fix go (l : list stmt) : list stmt := match l with [] => [] | x :: l' => rk k x ++ go l' end) l = remove_kind k l.
Proof. induction l as [|x l IH]; [reflexivity|]. cbn [remove_kind]. now rewrite IH. Qed.
Lemma empty_if_block (l : list stmt) :
  (fix go (l : list stmt) : bool := match l with [] => false | x :: l' => stmt_empty_if x || go l' end) l = existsb stmt_empty_if l.
Proof. induction l as [|x l IH]; [reflexivity|]. cbn [existsb]. now rewrite IH. Qed.

(* removing a kind of statement from a well-formed operation leaves well-formed operations, unless it empties an if-block *)
Lemma rk_op_ok k n : forall stm env, (sdepth stm < n)%nat -> op_ok env stm = true ->
  existsb stmt_empty_if (rk k stm) = false -> forallb (op_ok env) (rk k stm) = true.
Proof.
  induction n as [|n IH]; intros stm env Hd Hok He; [lia|].
  destruct stm; try discriminate Hok; cbn [rk] in *;
    try (destruct (is_kind k _); [reflexivity|cbn [forallb]; now rewrite Hok]).
  (* conditional *)
  rewrite !rk_block in *. cbn [existsb stmt_empty_if] in He. rewrite orb_false_r in He.
  cbn [op_ok] in Hok. rewrite !op_ok_block in Hok.
  destruct cond; try discriminate Hok. destruct cond2; try discriminate Hok.
  apply andb_true_iff in Hok as [Hok Hel]. apply andb_true_iff in Hok as [Hok Ht]. apply andb_true_iff in Hok as [Hok Hne].
  cbn [sdepth] in Hd. rewrite (sdepth_block then_), (sdepth_block else_) in Hd.
  assert (Hb : forall l, (ldepth l < n)%nat -> forallb (op_ok env) l = true -> existsb stmt_empty_if (remove_kind k l) = false ->
                         forallb (op_ok env) (remove_kind k l) = true).
  { induction l as [|x l IHl]; intros Hl Hf Hx; [reflexivity|]. unfold ldepth in Hl. cbn [fold_right] in Hl. fold (ldepth l) in Hl.
    cbn [forallb remove_kind] in *. apply andb_true_iff in Hf as [Hf1 Hf2]. rewrite existsb_app in Hx. apply orb_false_iff in Hx as [Hx1 Hx2].
    rewrite forallb_app. rewrite (IH x env) by (auto; lia). now rewrite IHl by (auto; lia). }
  cbn [forallb op_ok]. rewrite !op_ok_block, andb_true_r.
  rewrite !empty_if_block in He.
  assert (He1 : existsb stmt_empty_if (remove_kind k then_) = false /\ existsb stmt_empty_if (remove_kind k else_) = false /\ remove_kind k then_ <> []).
  { destruct (remove_kind k then_) as [|y t']; [discriminate He|]. apply orb_false_iff in He as [He1 He2]. repeat split; auto; discriminate. }
  destruct He1 as (He1 & He2 & Hne').
  rewrite Hok, (Hb then_ ltac:(lia) Ht He1), (Hb else_ ltac:(lia) Hel He2).
  destruct (remove_kind k then_); [congruence|reflexivity].
Qed.

Lemma rk_program k l : forall env env2, same_regs env env2 -> (k = KIncl \/ e_inc env2 = e_inc env) ->
  wf_flat env l = true -> has_empty_if (remove_kind k l) = false -> wf_flat env2 (remove_kind k l) = true.
Proof.
  induction l as [|stm l IH]; intros env env2 Sr I H He; [reflexivity|]. cbn [wf_flat remove_kind] in *.
  destruct (top_step env stm) as [env'|] eqn:Es; [|discriminate].
  unfold has_empty_if in He. rewrite existsb_app in He. apply orb_false_iff in He as [He1 He2].
  destruct (top_step_op env stm env' Es) as [(Et & Ho & ->)|(Ho & _)].
  - (* an operation *)
    pose proof (rk_op_ok k (S (sdepth stm)) stm env (Nat.lt_succ_diag_r _) Ho He1) as Hr.
    assert (Hw : forall l0, forallb (op_ok env) l0 = true -> wf_flat env2 (l0 ++ remove_kind k l) = true).
    { induction l0 as [|x l0 IHl0]; intros Hf; [cbn [app]; now apply (IH env env2)|].
      cbn [forallb] in Hf. apply andb_true_iff in Hf as [Hx Hf]. cbn [app wf_flat].
      assert (top_step env2 x = Some env2) as ->; [|now apply IHl0].
      rewrite (op_ok_ext (S (sdepth x)) x env env2 (Nat.lt_succ_diag_r _) Sr) in Hx.
      destruct x; try (exfalso; cbn [op_ok] in Hx; discriminate Hx); cbn [top_step]; now rewrite Hx. }
    now apply Hw.
  - (* an include or a declaration *)
    destruct Sr as [Sq Sc].
    destruct stm; cbn [top_step] in Es; try (rewrite Ho in Es; discriminate Es).
    + (* include *)
      destruct (smem file (e_inc env)) eqn:Ef; [discriminate|]. inversion Es; subst env'. destruct k; cbn [rk is_kind app wf_flat top_step].
      * destruct I as [I|I]; [discriminate|]. rewrite I, Ef.
        apply (IH (mkEnv (e_q env) (e_c env) (file :: e_inc env)) (mkEnv (e_q env2) (e_c env2) (file :: e_inc env)));
          [split; assumption|right; reflexivity|exact H|exact He2].
      * destruct I as [I|I]; [discriminate|]. rewrite I, Ef.
        apply (IH (mkEnv (e_q env) (e_c env) (file :: e_inc env)) (mkEnv (e_q env2) (e_c env2) (file :: e_inc env)));
          [split; assumption|right; reflexivity|exact H|exact He2].
      * apply (IH (mkEnv (e_q env) (e_c env) (file :: e_inc env)) env2); [split; assumption|now left|exact H|exact He2].
    + (* qubit declaration *)
      destruct size as [e|]; [|rewrite Ho in Es; discriminate]. destruct e; try (rewrite Ho in Es; discriminate). destruct v; try (rewrite Ho in Es; discriminate).
      destruct (fresh_name env name && (1 <=? z) && (z <? 100000)) eqn:Ec; [|discriminate]. inversion Es; subst env'.
      assert (rk k (SQubitDecl name (Some (ELit (VInt z)))) = [SQubitDecl name (Some (ELit (VInt z)))]) as -> by (destruct k; reflexivity).
      cbn [app wf_flat top_step]. unfold fresh_name in *. rewrite <- Sq, <- Sc, Ec.
      apply (IH (mkEnv (sset name z (e_q env)) (e_c env) (e_inc env)) (mkEnv (sset name z (e_q env)) (e_c env) (e_inc env2)));
        [split; reflexivity|destruct I as [I|I]; [now left|right; exact I]|exact H|exact He2].
    + (* bit declaration *)
      destruct t; try (rewrite Ho in Es; discriminate). destruct size as [e|]; [|rewrite Ho in Es; discriminate].
      destruct e; try (rewrite Ho in Es; discriminate). destruct v; try (rewrite Ho in Es; discriminate).
      destruct (fresh_name env name && (1 <=? z) && (z <? 100000) && bit_init_ok init) eqn:Ec; [|discriminate]. inversion Es; subst env'.
      assert (rk k (SClassicalDecl (TBit (Some (ELit (VInt z)))) name init) = [SClassicalDecl (TBit (Some (ELit (VInt z)))) name init]) as -> by (destruct k; reflexivity).
      cbn [app wf_flat top_step]. unfold fresh_name in *. rewrite <- Sq, <- Sc, Ec.
      apply (IH (mkEnv (e_q env) (sset name z (e_c env)) (e_inc env)) (mkEnv (e_q env) (sset name z (e_c env)) (e_inc env2)));
        [split; reflexivity|destruct I as [I|I]; [now left|right; exact I]|exact H|exact He2].
Qed.

Theorem removal_keeps_wellformed k p :
  wf_flat env0 p = true -> has_empty_if (remove_kind k p) = false -> wf_flat env0 (remove_kind k p) = true.
Proof. intros H He. apply (rk_program k p env0 env0); [split; reflexivity|now right|exact H|exact He]. Qed.

Theorem removal_result_is_valid_and_stable fuel k p :
  wf_flat env0 p = true -> has_empty_if (remove_kind k p) = false -> (ldepth (remove_kind k p) < fuel)%nat ->
  (exists o, run_visit false true [] fuel (remove_kind k p) = Ok o) /\
  (exists o, run_visit false false [] fuel (remove_kind k p) = Ok o /\ o_stmts o = remove_kind k p).
Proof.
  intros H He Hf. destruct (wf_flat_is_accepted_and_a_fixpoint fuel (remove_kind k p) (removal_keeps_wellformed k p H He) Hf)
    as [(o1 & E1 & _) (o2 & E2 & Ho & _)].
  split; [exists o1; exact E1|exists o2; split; assumption].
Qed.

(* ---------- remove_idle_qubits ---------- *)
Section Idle.
Variable used : list bitref.
Notation ren := (idle_rename used).

(* the registers while walking the original program vs. while walking the result *)
Record Shr (env env2 : renv) : Prop := {
  sh_c : e_c env2 = e_c env;
  sh_inc : e_inc env2 = e_inc env;
  sh_some : forall r n, sget r (e_q env) = Some n ->
            sget r (e_q env2) = (if rank used r n =? 0 then None else Some (rank used r n));
  sh_none : forall r, sget r (e_q env) = None -> sget r (e_q env2) = None
}.

Definition all_used (l : list bitref) : Prop := forall b, In b l -> bmem b used = true.

Lemma ren_in_reg env env2 b : Shr env env2 -> bmem b used = true -> in_reg (e_q env) b = true -> in_reg (e_q env2) (ren b) = true.
Proof.
  intros S Hu H. unfold in_reg in *. destruct b as [r i]. unfold idle_rename. cbn [fst snd] in *.
  destruct (sget r (e_q env)) as [n|] eqn:E; [|discriminate]. apply andb_true_iff in H as [H0 H1]. apply Z.leb_le in H0. apply Z.ltb_lt in H1.
  pose proof (rank_in_range used r i n (conj H0 H1) Hu) as [R0 R1].
  rewrite (sh_some _ _ S r n E). destruct (rank used r n =? 0) eqn:Ez; [apply Z.eqb_eq in Ez; lia|].
  apply andb_true_iff. split; [apply Z.leb_le|apply Z.ltb_lt]; lia.
Qed.

Lemma ren_inj env a b : bmem a used = true -> bmem b used = true ->
  in_reg (e_q env) a = true -> in_reg (e_q env) b = true -> ren a = ren b -> a = b.
Proof.
  intros Ua Ub Ha Hb E. destruct a as [r i], b as [r' i']. unfold idle_rename in E. cbn [fst snd] in E. inversion E; subst r'.
  unfold in_reg in *. cbn [fst snd] in *. destruct (sget r (e_q env)) as [n|]; [|discriminate].
  apply andb_true_iff in Ha as [Ha _]. apply andb_true_iff in Hb as [Hb _]. apply Z.leb_le in Ha, Hb.
  f_equal. eapply rank_injective; eauto.
Qed.

Lemma ren_distinct env l : forall acc, all_used acc -> all_used l ->
  forallb (in_reg (e_q env)) acc = true -> forallb (in_reg (e_q env)) l = true ->
  distinctb acc l = true -> distinctb (map ren acc) (map ren l) = true.
Proof.
  induction l as [|b l IH]; intros acc Ua Ul Hacc Hl Hd; [reflexivity|].
  cbn [forallb] in Hl. apply andb_true_iff in Hl as [Hb Hl]. cbn [distinctb map] in *.
  apply andb_true_iff in Hd as [Hn Hd]. apply andb_true_iff. split.
  - apply negb_true_iff. apply negb_true_iff in Hn. destruct (existsb (bitref_eqb (ren b)) (map ren acc)) eqn:E; [|reflexivity].
    apply existsb_exists in E as (y & Hy & Ey). apply in_map_iff in Hy as (a & <- & Ha).
    destruct (bitref_eqb_spec (ren b) (ren a)) as [Efa|]; [|discriminate].
    assert (b = a). { eapply ren_inj; eauto; [apply Ul; now left|eapply forallb_forall in Hacc; eauto]. } subst a.
    assert (existsb (bitref_eqb b) acc = true); [|congruence]. apply existsb_exists. exists b. split; [exact Ha|]. destruct (bitref_eqb_spec b b); congruence.
  - replace (map ren acc ++ [ren b]) with (map ren (acc ++ [b])) by (rewrite map_app; reflexivity).
    apply IH; auto.
    + intros x Hx. apply in_app_or in Hx as [Hx|[<-|[]]]; [now apply Ua|apply Ul; now left].
    + intros x Hx. apply Ul. now right.
    + rewrite forallb_app. cbn [forallb]. now rewrite Hacc, Hb.
Qed.

Lemma opt_list_lit_bits qs bs : mapM lit_bit qs = Some bs -> opt_list (map qarg_bit qs) = bs.
Proof.
  revert bs. induction qs as [|q qs IH]; intros bs H; cbn [mapM map opt_list] in *; [now inversion H|].
  change (qarg_bit q) with (lit_bit q). destruct (lit_bit q) as [b|]; [|discriminate]. destruct (mapM lit_bit qs) as [bs'|]; [|discriminate].
  inversion H; subst. now rewrite (IH bs' eq_refl).
Qed.

Lemma map_qarg_lit' g q b : lit_bit q = Some b -> map_qarg g q = qarg_of (g b).
Proof. intros H. rewrite (lit_bit_qarg_of q b H). unfold map_qarg. change (qarg_bit (qarg_of b)) with (lit_bit (qarg_of b)). now rewrite lit_bit_of. Qed.
Lemma mapM_map_qarg' g qs bs : mapM lit_bit qs = Some bs -> mapM lit_bit (map (map_qarg g) qs) = Some (map g bs).
Proof.
  revert bs. induction qs as [|q qs IH]; intros bs H; cbn [mapM map] in *; [inversion H; reflexivity|].
  destruct (lit_bit q) as [b|] eqn:Eb; [|discriminate]. destruct (mapM lit_bit qs) as [bs'|]; [|discriminate]. inversion H; subst.
  rewrite (map_qarg_lit' g q b Eb), lit_bit_of, (IH bs' eq_refl). reflexivity.
Qed.

Lemma cond_ok_shr env env2 lhs rhs : Shr env env2 -> cond_ok env2 lhs rhs = cond_ok env lhs rhs.
Proof. intros S. unfold cond_ok. now rewrite (sh_c _ _ S). Qed.

Lemma ren_op_ok n : forall stm env env2, (sdepth stm < n)%nat -> Shr env env2 -> all_used (stmt_qubits stm) ->
  op_ok env stm = true -> op_ok env2 (map_qubits ren stm) = true.
Proof.
  induction n as [|n IH]; intros stm env env2 Hd S U Hok; [lia|].
  destruct stm; try discriminate Hok; cbn [map_qubits].
  - (* gate *)
    cbn [op_ok] in *. destruct mods; [|discriminate Hok].
    destruct (mapM lit_bit qubits) as [bs|] eqn:Eb; [|discriminate Hok]. rewrite (mapM_map_qarg' _ _ _ Eb).
    cbn [stmt_qubits] in U. rewrite (opt_list_lit_bits _ _ Eb) in U.
    destruct (mapM lit_num args) as [vs|]; [|discriminate Hok]. destruct (assoc name self_basis) as [[np k]|]; [|discriminate Hok].
    apply andb_true_iff in Hok as [Hok Hdi]. apply andb_true_iff in Hok as [Hok Hin]. apply andb_true_iff in Hok as [Hv Hb].
    rewrite Hv, map_length, Hb. cbn [andb]. apply andb_true_iff. split.
    + rewrite forallb_forall in *. intros y Hy. apply in_map_iff in Hy as (b & <- & Hb'). eapply ren_in_reg; eauto.
    + change (@nil bitref) with (map ren []). apply (ren_distinct env bs []); auto. intros x [].
  - (* gphase *) cbn [op_ok] in *. destruct mods; [|discriminate Hok]. destruct arg; try discriminate Hok. destruct qubits; [|discriminate Hok]. exact Hok.
  - (* measure *)
    cbn [op_ok stmt_qubits] in *. destruct target as [t|]; [|discriminate Hok].
    destruct (lit_bit q) as [a|] eqn:Ea; [|discriminate Hok]. destruct (lit_bit t) as [b|] eqn:Eb; [|discriminate Hok].
    change (qarg_bit q) with (lit_bit q) in U. rewrite Ea in U. cbn [map opt_list] in U.
    rewrite (map_qarg_lit' _ q a Ea), lit_bit_of. apply andb_true_iff in Hok as [Ha Hb]. rewrite (sh_c _ _ S), Hb, andb_true_r.
    eapply ren_in_reg; eauto. apply U. now left.
  - (* reset *)
    cbn [op_ok stmt_qubits] in *. destruct (lit_bit q) as [a|] eqn:Ea; [|discriminate Hok].
    change (qarg_bit q) with (lit_bit q) in U. rewrite Ea in U. cbn [map opt_list] in U.
    rewrite (map_qarg_lit' _ q a Ea), lit_bit_of. eapply ren_in_reg; eauto. apply U. now left.
  - (* barrier *)
    cbn [op_ok stmt_qubits] in *. destruct qs as [|q [|]]; try discriminate Hok. cbn [map].
    destruct (lit_bit q) as [a|] eqn:Ea; [|discriminate Hok].
    cbn [map] in U. change (qarg_bit q) with (lit_bit q) in U. rewrite Ea in U. cbn [opt_list] in U.
    rewrite (map_qarg_lit' _ q a Ea), lit_bit_of. eapply ren_in_reg; eauto. apply U. now left.
  - (* conditional *)
    cbn [op_ok] in *. rewrite !op_ok_block in *.
    destruct cond; try discriminate Hok. destruct cond2; try discriminate Hok.
    apply andb_true_iff in Hok as [Hok He]. apply andb_true_iff in Hok as [Hok Ht]. apply andb_true_iff in Hok as [Hok Hne].
    apply andb_true_iff in Hok as [Hop Hc].
    cbn [sdepth] in Hd. rewrite (sdepth_block then_), (sdepth_block else_) in Hd.
    rewrite sq_if in U.
    assert (Hblock : forall l, forallb (op_ok env) l = true -> (ldepth l < n)%nat -> all_used (sql l) ->
              forallb (op_ok env2) ((fix go (l : list stmt) : list stmt := match l with [] => [] | x :: l' => map_qubits ren x :: go l' end) l) = true).
    { induction l as [|x l IHl]; intros Hl Hdl Ul; [reflexivity|].
      cbn [forallb] in Hl. apply andb_true_iff in Hl as [Hx Hl]. unfold ldepth in Hdl. cbn [fold_right] in Hdl. fold (ldepth l) in Hdl.
      cbn [forallb]. rewrite <- used_sql in Ul. cbn [used_qubits] in Ul.
      rewrite (IH x env env2); auto; try lia.
      - cbn [andb]. apply IHl; auto; try lia. rewrite <- used_sql. intros b Hb. apply Ul. apply in_or_app. now right.
      - intros b Hb. apply Ul. apply in_or_app. now left. }
    rewrite Hop, (cond_ok_shr env env2 _ _ S), Hc. cbn [andb].
    rewrite (Hblock then_ Ht), (Hblock else_ He); try lia.
    + destruct then_; [discriminate Hne|reflexivity].
    + intros b Hb. apply U. apply in_or_app. now right.
    + intros b Hb. apply U. apply in_or_app. now left.
Qed.

End Idle.

Lemma sget_sset_eq' {V} x (v : V) l : sget x (sset x v l) = Some v.
Proof. apply FixProofs.sget_sset_eq. Qed.

Lemma idle_program used l : forall env env2, Shr used env env2 -> all_used used (used_qubits l) ->
  wf_flat env l = true -> wf_flat env2 (map (map_qubits (idle_rename used)) (shrink_decls used l)) = true.
Proof.
  induction l as [|stm l IH]; intros env env2 Sh U H; [reflexivity|]. cbn [wf_flat] in H.
  destruct (top_step env stm) as [env'|] eqn:Es; [|discriminate].
  assert (Ul : all_used used (used_qubits l)) by (intros b Hb; apply U; cbn [used_qubits]; apply in_or_app; now right).
  destruct (top_step_op env stm env' Es) as [(Et & Ho & ->)|(Ho & Hid)].
  - (* an operation: kept, renamed *)
    assert (Hs : shrink_decls used (stm :: l) = stm :: shrink_decls used l)
      by (destruct stm; try reflexivity; cbn [op_ok] in Ho; discriminate Ho).
    rewrite Hs. cbn [map wf_flat].
    assert (Us : all_used used (stmt_qubits stm)) by (intros b Hb; apply U; cbn [used_qubits]; apply in_or_app; now left).
    pose proof (ren_op_ok used (S (sdepth stm)) stm env env2 (Nat.lt_succ_diag_r _) Sh Us Ho) as Ho'.
    assert (top_step env2 (map_qubits (idle_rename used) stm) = Some env2) as ->; [|now apply (IH env env2)].
    destruct stm; try (exfalso; cbn [op_ok] in Ho; discriminate Ho); cbn [map_qubits top_step] in *; now rewrite Ho'.
  - destruct Sh as [Sc Si Ss Sn].
    destruct stm; cbn [top_step] in Es; try (rewrite Ho in Es; discriminate Es).
    + (* include *)
      destruct (smem file (e_inc env)) eqn:Ef; [discriminate|]. inversion Es; subst env'.
      cbn [shrink_decls map map_qubits wf_flat top_step]. rewrite Si, Ef.
      apply (IH (mkEnv (e_q env) (e_c env) (file :: e_inc env)) (mkEnv (e_q env2) (e_c env2) (file :: e_inc env))); [|exact Ul|exact H].
      split; cbn [e_q e_c e_inc]; auto.
    + (* qubit declaration *)
      destruct size as [e|]; [|rewrite Ho in Es; discriminate]. destruct e; try (rewrite Ho in Es; discriminate). destruct v; try (rewrite Ho in Es; discriminate).
      destruct (fresh_name env name && (1 <=? z) && (z <? 100000)) eqn:Ec; [|discriminate]. inversion Es; subst env'.
      apply andb_true_iff in Ec as [Ec H2]. apply andb_true_iff in Ec as [F H1]. apply Z.leb_le in H1. apply Z.ltb_lt in H2.
      assert (Fq : sget name (e_q env) = None /\ sget name (e_c env) = None /\ is_constant_name name = false).
      { unfold fresh_name in F. destruct (sget name (e_q env)); [discriminate|]. destruct (sget name (e_c env)); [discriminate|]. apply negb_true_iff in F. auto. }
      destruct Fq as (Fq & Fc & Fk).
      cbn [shrink_decls]. destruct (rank used name z =? 0) eqn:Ez.
      * (* the whole register is idle: undeclared *)
        apply (IH (mkEnv (sset name z (e_q env)) (e_c env) (e_inc env)) env2); [|exact Ul|exact H].
        split; cbn [e_q e_c e_inc]; auto.
        -- intros r n Hr. destruct (String.eqb_spec r name) as [->|Nr].
           ++ rewrite sget_sset_eq' in Hr. inversion Hr; subst n. rewrite Ez. now apply Sn.
           ++ rewrite sget_sset_neq in Hr by exact Nr. now apply Ss.
        -- intros r Hr. destruct (String.eqb_spec r name) as [->|Nr]; [rewrite sget_sset_eq' in Hr; discriminate|].
           rewrite sget_sset_neq in Hr by exact Nr. now apply Sn.
      * cbn [map map_qubits wf_flat top_step].
        assert (Hk : 1 <= rank used name z < 100000).
        { apply Z.eqb_neq in Ez. pose proof (rank_le used name z ltac:(lia)). pose proof (rank_mono used name 0 z ltac:(lia)). rewrite rank_cnt in *. cbn in *. lia. }
        assert (fresh_name env2 name = true) as ->.
        { unfold fresh_name. rewrite (Sn name Fq), Sc, Fc, Fk. reflexivity. }
        assert ((1 <=? rank used name z) = true) as -> by (apply Z.leb_le; lia).
        assert ((rank used name z <? 100000) = true) as -> by (apply Z.ltb_lt; lia). cbn [andb].
        apply (IH (mkEnv (sset name z (e_q env)) (e_c env) (e_inc env)) (mkEnv (sset name (rank used name z) (e_q env2)) (e_c env2) (e_inc env2))); [|exact Ul|exact H].
        split; cbn [e_q e_c e_inc]; auto.
        -- intros r n Hr. destruct (String.eqb_spec r name) as [->|Nr].
           ++ rewrite sget_sset_eq' in Hr. inversion Hr; subst n. rewrite Ez, sget_sset_eq'. reflexivity.
           ++ rewrite sget_sset_neq in Hr by exact Nr. rewrite sget_sset_neq by exact Nr. now apply Ss.
        -- intros r Hr. destruct (String.eqb_spec r name) as [->|Nr]; [rewrite sget_sset_eq' in Hr; discriminate|].
           rewrite sget_sset_neq in Hr by exact Nr. rewrite sget_sset_neq by exact Nr. now apply Sn.
    + (* bit declaration *)
      destruct t; try (rewrite Ho in Es; discriminate). destruct size as [e|]; [|rewrite Ho in Es; discriminate].
      destruct e; try (rewrite Ho in Es; discriminate). destruct v; try (rewrite Ho in Es; discriminate).
      destruct (fresh_name env name && (1 <=? z) && (z <? 100000) && bit_init_ok init) eqn:Ec; [|discriminate]. inversion Es; subst env'.
      cbn [shrink_decls map map_qubits wf_flat top_step].
      assert (fresh_name env2 name = fresh_name env name) as ->.
      { unfold fresh_name. rewrite Sc. destruct (sget name (e_q env)) eqn:Eq.
        - rewrite (Ss name z0 Eq). destruct (rank used name z0 =? 0); [|reflexivity]. apply andb_true_iff in Ec as [Ec _]. apply andb_true_iff in Ec as [Ec _]. apply andb_true_iff in Ec as [Ec _].
          unfold fresh_name in Ec. rewrite Eq in Ec. discriminate.
        - now rewrite (Sn name Eq). }
      rewrite Ec.
      apply (IH (mkEnv (e_q env) (sset name z (e_c env)) (e_inc env)) (mkEnv (e_q env2) (sset name z (e_c env2)) (e_inc env2))); [|exact Ul|exact H].
      split; cbn [e_q e_c e_inc]; auto. congruence.
Qed.

Theorem remove_idle_keeps_wellformed p : wf_flat env0 p = true -> wf_flat env0 (remove_idle p) = true.
Proof.
  intros H. unfold remove_idle. apply (idle_program (used_qubits p) p env0 env0); [|intros b Hb; now apply bmem_In|exact H].
  split; cbn; auto; intros; discriminate.
Qed.

Theorem remove_idle_result_is_valid_and_stable fuel p :
  wf_flat env0 p = true -> (ldepth (remove_idle p) < fuel)%nat ->
  (exists o, run_visit false true [] fuel (remove_idle p) = Ok o /\ num_qubits (o_state o) = total_qubits (remove_idle p)) /\
  (exists o, run_visit false false [] fuel (remove_idle p) = Ok o /\ o_stmts o = remove_idle p /\ num_qubits (o_state o) = total_qubits (remove_idle p)).
Proof.
  intros H Hf. destruct (wf_flat_is_accepted_and_a_fixpoint fuel (remove_idle p) (remove_idle_keeps_wellformed p H) Hf)
    as [(o1 & E1 & N1 & _) (o2 & E2 & Ho & N2 & _)].
  split; [exists o1; split; assumption|exists o2; split; [exact E2|split; assumption]].
Qed.

(* ---------- ... and depth() of the result is the depth of the remaining circuit ---------- *)
Theorem transformed_program_depth fuel q :
  wf_flat env0 q = true -> (ldepth q < fuel)%nat ->
  exists o, run_visit false true [] fuel q = Ok o /\ forall r, dof (o_state o) r = depth_after rsrc_eqb (evs_of q) r.
Proof.
  intros H Hf. destruct (wf_flat_is_accepted_and_a_fixpoint fuel q H Hf) as [(o1 & E1 & _ & _ & D1) _]. exists o1. split; assumption.
Qed.

Corollary removal_depth_is_depth_of_what_remains fuel k p :
  wf_flat env0 p = true -> has_empty_if (remove_kind k p) = false -> (ldepth (remove_kind k p) < fuel)%nat ->
  exists o, run_visit false true [] fuel (remove_kind k p) = Ok o /\
            forall r, dof (o_state o) r = depth_after rsrc_eqb (evs_of (remove_kind k p)) r.
Proof. intros H He Hf. apply transformed_program_depth; [now apply removal_keeps_wellformed|exact Hf]. Qed.

(* ---------- any sequence of transformations ---------- *)
Inductive tstep := TPopulate | TReverse | TRemoveIdle | TRemove (k : kind).
Definition apply_tstep (t : tstep) (p : list stmt) : list stmt :=
  match t with
  | TPopulate => populate p
  | TReverse => reverse_qubits p
  | TRemoveIdle => remove_idle p
  | TRemove k => remove_kind k p
  end.
(* no removal of the sequence empties an if-block (where it does, pyqasm itself rejects the program afterwards:
   the known finding C03-empty-if-block) *)
Fixpoint no_emptied_if (ts : list tstep) (p : list stmt) : bool :=
  match ts with
  | [] => true
  | t :: ts' => negb (has_empty_if (apply_tstep t p)) && no_emptied_if ts' (apply_tstep t p)
  end.
Definition apply_tsteps (ts : list tstep) (p : list stmt) : list stmt := fold_left (fun q t => apply_tstep t q) ts p.

Lemma tstep_keeps_wellformed t p : wf_flat env0 p = true -> has_empty_if (apply_tstep t p) = false -> wf_flat env0 (apply_tstep t p) = true.
Proof.
  intros H He. destruct t; cbn [apply_tstep] in *.
  - now apply populate_keeps_wellformed.
  - now apply reverse_keeps_wellformed.
  - now apply remove_idle_keeps_wellformed.
  - now apply removal_keeps_wellformed.
Qed.

Theorem any_sequence_keeps_wellformed ts : forall p,
  wf_flat env0 p = true -> no_emptied_if ts p = true -> wf_flat env0 (apply_tsteps ts p) = true.
Proof.
  unfold apply_tsteps. induction ts as [|t ts IH]; intros p H Hn; [exact H|].
  cbn [no_emptied_if] in Hn. apply andb_true_iff in Hn as [He Hn]. apply negb_true_iff in He.
  cbn [fold_left]. apply IH; [now apply tstep_keeps_wellformed|exact Hn].
Qed.

Theorem any_sequence_result_is_valid_and_stable fuel ts p :
  wf_flat env0 p = true -> no_emptied_if ts p = true -> (ldepth (apply_tsteps ts p) < fuel)%nat ->
  (exists o, run_visit false true [] fuel (apply_tsteps ts p) = Ok o /\
             num_qubits (o_state o) = total_qubits (apply_tsteps ts p) /\
             forall r, dof (o_state o) r = depth_after rsrc_eqb (evs_of (apply_tsteps ts p)) r) /\
  (exists o, run_visit false false [] fuel (apply_tsteps ts p) = Ok o /\ o_stmts o = apply_tsteps ts p).
Proof.
  intros H Hn Hf.
  destruct (wf_flat_is_accepted_and_a_fixpoint fuel _ (any_sequence_keeps_wellformed ts p H Hn) Hf) as [(o1 & E1 & N1 & _ & D1) (o2 & E2 & Ho & _)].
  split; [exists o1; repeat split; assumption|exists o2; split; assumption].
Qed.

(* ---------- populate and depth: exactly the idle qubits move from 0 to 1 ---------- *)
Lemma evs_of_app a b : evs_of (a ++ b) = evs_of a ++ evs_of b.
Proof. unfold evs_of. apply flat_map_app. Qed.
Lemma evs_of_ids l : evs_of (map id_gate l) = map (fun b => [Qr b]) l.
Proof.
  unfold evs_of. induction l as [|b l IH]; [reflexivity|]. cbn [map flat_map]. rewrite IH.
  unfold id_gate. cbn [ev_of mapM]. change (bit_qarg b) with (qarg_of b). rewrite lit_bit_of. reflexivity.
Qed.

(* the quantum resources of the events of a statement are qubits the statement uses *)
Lemma ev_qubits_used n : forall stm ev b, (sdepth stm < n)%nat -> In ev (ev_of stm) -> In (Qr b) ev -> In b (stmt_qubits stm).
Proof.
  induction n as [|n IH]; intros stm ev b Hd Hev Hb; [lia|].
  destruct stm; cbn [ev_of] in Hev; try contradiction.
  - destruct (mapM lit_bit qubits) as [bs|] eqn:E; [|contradiction]. destruct Hev as [<-|[]].
    cbn [stmt_qubits]. rewrite (opt_list_lit_bits _ _ E). apply in_map_iff in Hb as (x & Hx & Hin). inversion Hx; subst. exact Hin.
  - destruct target as [t|]; [|contradiction]. destruct (lit_bit q) as [a|] eqn:Ea; [|contradiction]. destruct (lit_bit t) as [c|]; [|contradiction].
    destruct Hev as [<-|[]]. cbn [stmt_qubits map opt_list]. change (qarg_bit q) with (lit_bit q). rewrite Ea.
    destruct Hb as [Hx|[Hx|[]]]; inversion Hx; subst. now left.
  - destruct (lit_bit q) as [a|] eqn:Ea; [|contradiction]. destruct Hev as [<-|[]]. cbn [stmt_qubits map opt_list]. change (qarg_bit q) with (lit_bit q). rewrite Ea.
    destruct Hb as [Hx|[]]; inversion Hx; subst. now left.
  - destruct qs as [|q [|]]; try contradiction. destruct (lit_bit q) as [a|] eqn:Ea; [|contradiction]. destruct Hev as [<-|[]].
    cbn [stmt_qubits map opt_list]. change (qarg_bit q) with (lit_bit q). rewrite Ea. destruct Hb as [Hx|[]]; inversion Hx; subst. now left.
  - rewrite !ev_of_block in Hev. rewrite sq_if. cbn [sdepth] in Hd. rewrite (sdepth_block then_), (sdepth_block else_) in Hd.
    assert (Hl : forall l, (ldepth l < n)%nat -> In ev (evs_of l) -> In b (sql l)).
    { induction l as [|x l IHl]; intros Hdl Hin; [contradiction|]. unfold evs_of in Hin. cbn [flat_map] in Hin. fold (evs_of l) in Hin.
      unfold ldepth in Hdl. cbn [fold_right] in Hdl. fold (ldepth l) in Hdl. rewrite <- used_sql. cbn [used_qubits]. apply in_or_app.
      apply in_app_or in Hin as [Hin|Hin]; [left; eapply IH; eauto; lia|right; rewrite used_sql; apply IHl; [lia|exact Hin]]. }
    apply in_or_app. apply in_app_or in Hev as [Hev|Hev]; [left|right]; apply Hl; auto; lia.
Qed.

Lemma evs_qubits_used l ev b : In ev (evs_of l) -> In (Qr b) ev -> In b (used_qubits l).
Proof.
  induction l as [|x l IH]; intros Hev Hb; [contradiction|]. unfold evs_of in Hev. cbn [flat_map] in Hev. fold (evs_of l) in Hev.
  cbn [used_qubits]. apply in_or_app. apply in_app_or in Hev as [Hev|Hev]; [left; eapply (ev_qubits_used (S (sdepth x))); eauto|right; now apply IH].
Qed.

Lemma depth_untouched evs r : (forall ev, In ev evs -> ~ In r ev) -> depth_after rsrc_eqb evs r = 0.
Proof.
  unfold depth_after. assert (G : forall d, d r = 0 -> (forall ev, In ev evs -> ~ In r ev) -> fold_left (dstep rsrc_eqb) evs d r = 0).
  { induction evs as [|ev evs IH]; intros d Hd H; [exact Hd|]. cbn [fold_left]. apply IH; [|intros ev' Hin; apply H; now right].
    rewrite (dstep_out rsrc_eqb rsrc_eqb_spec); [exact Hd|apply H; now left]. }
  intros H. now apply G.
Qed.

(* appending one single-resource event per resource of a duplicate-free list of untouched resources *)
Lemma depth_singletons l : forall (d : dmap (R := rsrc)) r, NoDup l -> (forall x, In x l -> d x = 0) ->
  fold_left (dstep rsrc_eqb) (map (fun x => [x]) l) d r = if existsb (rsrc_eqb r) l then 1 else d r.
Proof.
  induction l as [|x l IH]; intros d r N H; [reflexivity|]. inversion N; subst. cbn [map fold_left existsb].
  rewrite IH; [| exact H3 |].
  - destruct (rsrc_eqb_spec r x) as [->|Nx]; cbn [orb].
    + destruct (existsb (rsrc_eqb x) l) eqn:E; [reflexivity|].
      rewrite (dstep_in rsrc_eqb rsrc_eqb_spec) by (now left). cbn [map]. unfold maxl. cbn [fold_right]. rewrite (H x (or_introl eq_refl)). reflexivity.
    + destruct (existsb (rsrc_eqb r) l); [reflexivity|]. apply (dstep_out rsrc_eqb rsrc_eqb_spec). intros [E|[]]. congruence.
  - intros y Hy. rewrite (dstep_out rsrc_eqb rsrc_eqb_spec); [apply H; now right|]. intros [E|[]]. subst. contradiction.
Qed.

Lemma nodup_all_qubits regs : NoDup (map fst regs) -> NoDup (all_qubits regs).
Proof.
  unfold all_qubits. induction regs as [|[r n] regs IH]; intros N; [constructor|]. cbn [map fst] in N. inversion N; subst.
  cbn [flat_map fst snd]. apply ResolveProofs.nodup_app.
  - apply Injective_map_NoDup; [intros a b E; now inversion E|]. unfold range_z. apply Injective_map_NoDup; [intros a b E; lia|apply seq_NoDup].
  - now apply IH.
  - intros x Hy Hx. apply in_map_iff in Hx as (i & <- & _). apply in_flat_map in Hy as ([r' n'] & Hr & Hin). cbn [fst snd] in Hin.
    apply in_map_iff in Hin as (j & E & _). inversion E; subst. apply H1. apply in_map_iff. exists (r, n'). auto.
Qed.

Theorem populate_depth p r : wf_flat env0 p = true ->
  depth_after rsrc_eqb (evs_of (populate p)) r
  = if existsb (rsrc_eqb r) (map Qr (idle_qubits p)) then 1 else depth_after rsrc_eqb (evs_of p) r.
Proof.
  intros H. unfold populate. rewrite evs_of_app, evs_of_ids. unfold depth_after. rewrite fold_left_app.
  replace (map (fun b => [Qr b]) (idle_qubits p)) with (map (fun x => [x]) (map Qr (idle_qubits p))) by (now rewrite map_map).
  apply depth_singletons.
  - apply Injective_map_NoDup; [intros a b E; now inversion E|]. unfold idle_qubits. apply NoDup_filter. apply nodup_all_qubits.
    pose proof (env_after_nodup p env0 H) as N. rewrite (env_after_q p env0 H) in N. cbn [e_q env0 app map] in N. apply N. constructor.
  - intros x Hx. apply in_map_iff in Hx as (b & <- & Hb). apply depth_untouched. intros ev Hev Hin.
    unfold idle_qubits in Hb. apply filter_In in Hb as [_ Hb]. apply negb_true_iff in Hb.
    assert (bmem b (used_qubits p) = true); [|congruence]. apply bmem_In. eapply evs_qubits_used; eauto.
Qed.
