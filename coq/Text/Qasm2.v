(* OpenQASM 2 layer (modules/qasm2.py): the statement whitelist, the rewriting of printed
   declarations into qreg/creg form, and to_qasm3.  The printed program is modelled line by line:
   the two regular-expression substitutions of _format_declarations act on declaration lines
   `qubit[n] name;` / `bit[n] name;` and leave every other line alone. *)
From Coq Require Import ZArith List Bool String.
From Verif Require Import BGate PyVal Ast State Unroll.
Import ListNotations.
Open Scope string_scope.

(* ---------- whitelist ---------- *)
Theorem whitelist_rejects check_only externals fuel prog :
  forallb qasm2_allowed prog = false -> run_visit true check_only externals fuel prog = Err EValidation.
Proof. intros H. unfold run_visit. rewrite H. reflexivity. Qed.

(* a version-2 module is visited exactly like a version-3 module once the whitelist passes *)
Theorem whitelisted_same_visit check_only externals fuel prog :
  forallb qasm2_allowed prog = true ->
  run_visit true check_only externals fuel prog = run_visit false check_only externals fuel prog.
Proof. intros H. unfold run_visit. rewrite H. reflexivity. Qed.

Example whitelist_kinds :
  map qasm2_allowed [SFor (TInt None) "i" (FSet []) []; SSubDef "f" [] None []; SSwitch (EId "x") [] None; SOther "WhileLoop";
                     SAlias "a" (EId "q"); SConstDecl (TInt None) "x" (ELit (VInt 1)); SAssign (QId "x") "=" (ELit (VInt 1));
                     SPhase [] (ELit (VInt 1)) []; SGateDef "g" [] ["a"] []; SIf (EId "c") [] []; SReset (QId "q")]
  = [false; false; false; false; false; false; false; false; true; true; true].
Proof. reflexivity. Qed.

(* ---------- printed declarations ---------- *)
Inductive line :=
| LQubit (size : string) (name : string)       (* qubit[size] name; *)
| LBit (size : string) (name : string)         (* bit[size] name; *)
| LQreg (size : string) (name : string)        (* qreg name[size]; *)
| LCreg (size : string) (name : string)        (* creg name[size]; *)
| LOtherLine (text : string).

Definition render (l : line) : string :=
  match l with
  | LQubit n x => "qubit[" ++ n ++ "] " ++ x ++ ";"
  | LBit n x => "bit[" ++ n ++ "] " ++ x ++ ";"
  | LQreg n x => "qreg " ++ x ++ "[" ++ n ++ "];"
  | LCreg n x => "creg " ++ x ++ "[" ++ n ++ "];"
  | LOtherLine t => t
  end.

(* one substitution: declarations of the given kind become the replacement kind *)
Definition subst_qubit (l : line) : line := match l with LQubit n x => LQreg n x | _ => l end.
Definition subst_bit (l : line) : line := match l with LBit n x => LCreg n x | _ => l end.

(* _format_declarations: first ("qubit", "qreg"), then ("bit", "creg") *)
Definition format_declarations (p : list line) : list line := map subst_bit (map subst_qubit p).

Theorem format_spec p :
  format_declarations p =
  map (fun l => match l with LQubit n x => LQreg n x | LBit n x => LCreg n x | _ => l end) p.
Proof. unfold format_declarations. rewrite map_map. apply map_ext. intros []; reflexivity. Qed.

Theorem format_frame p l : In l p -> (forall n x, l <> LQubit n x /\ l <> LBit n x) -> In l (format_declarations p).
Proof.
  intros Hin Hne. rewrite format_spec. apply in_map_iff. exists l. split; auto.
  destruct l; auto; destruct (Hne size name) as [H1 H2]; congruence.
Qed.

Theorem format_no_v3_declaration_left p l : In l (format_declarations p) ->
  forall n x, l <> LQubit n x /\ l <> LBit n x.
Proof.
  rewrite format_spec. intros Hin n x. apply in_map_iff in Hin as (l0 & <- & _). destruct l0; split; discriminate.
Qed.

Theorem format_idempotent p : format_declarations (format_declarations p) = format_declarations p.
Proof. rewrite !format_spec, map_map. apply map_ext. intros []; reflexivity. Qed.

Theorem format_length p : List.length (format_declarations p) = List.length p.
Proof. unfold format_declarations. now rewrite !map_length. Qed.

(* ---------- to_qasm3 ---------- *)
(* the first `include "qelib1.inc"` becomes `include "stdgates.inc"`; everything else is copied *)
Fixpoint to_qasm3 (p : list stmt) : list stmt :=
  match p with
  | [] => []
  | SInclude f :: p' => if String.eqb f "qelib1.inc" then SInclude "stdgates.inc" :: p' else SInclude f :: to_qasm3 p'
  | s :: p' => s :: to_qasm3 p'
  end.

Theorem to_qasm3_length p : List.length (to_qasm3 p) = List.length p.
Proof. induction p as [|s p IH]; [reflexivity|]. destruct s; simpl; try now rewrite IH. destruct (String.eqb _ _); simpl; now rewrite ?IH. Qed.

(* every statement other than includes is kept, in order *)
Definition is_include (s : stmt) : bool := match s with SInclude _ => true | _ => false end.
Theorem to_qasm3_keeps_statements p :
  filter (fun s => negb (is_include s)) (to_qasm3 p) = filter (fun s => negb (is_include s)) p.
Proof.
  induction p as [|s p IH]; [reflexivity|]. destruct s; simpl; try now rewrite IH.
  destruct (String.eqb _ _); simpl; now rewrite ?IH.
Qed.

Theorem to_qasm3_whitelisted p : forallb qasm2_allowed p = true -> forallb qasm2_allowed (to_qasm3 p) = true.
Proof.
  induction p as [|s p IH]; [reflexivity|]. simpl. intros H. apply andb_true_iff in H as [Hs Hp].
  destruct s; simpl in *; try (now rewrite ?Hs, IH); try discriminate.
  destruct (String.eqb _ _); simpl; [exact Hp|now apply IH].
Qed.

(* a program without a qelib1 include is converted to itself: its circuit is trivially the same *)
Theorem to_qasm3_identity p :
  forallb (fun s => match s with SInclude f => negb (String.eqb f "qelib1.inc") | _ => true end) p = true ->
  to_qasm3 p = p.
Proof.
  induction p as [|s p IH]; [reflexivity|]. simpl. intros H. apply andb_true_iff in H as [Hs Hp].
  destruct s; simpl; try now rewrite IH. apply negb_true_iff in Hs. rewrite Hs. now rewrite IH.
Qed.
