(* The validate CLI (cli/validate.py: validate_qasm): file discovery, --skip, the ignore tag,
   verdict aggregation -- and the set-theoretic verdict it must compute. *)
From Coq Require Import ZArith List Bool String Lia.
Import ListNotations.
Open Scope string_scope.
Open Scope Z_scope.
Open Scope list_scope.

Record file := mkFile {
  f_path : string;        (* the path string as discovered: the argument itself, or os.path.join(root, name) *)
  f_qasm : bool;          (* the name ends with ".qasm" *)
  f_tagged : bool;        (* "// pyqasm: ignore" occurs on a line before the first line containing OPENQASM *)
  f_valid : bool          (* load(path) followed by validate() succeeds *)
}.

Inductive arg :=
| ADir (files : list file)      (* a directory: every file os.walk finds below it, in walk order *)
| AFile (f : file).             (* a path that is a file *)

Definition smem (x : string) (l : list string) : bool := existsb (String.eqb x) l.

(* ---------- the implementation's bookkeeping ---------- *)
Record acc := mkAcc { checked : Z; skipped : Z; failed : list string }.

Definition validate_file (skip : list string) (a : acc) (f : file) : acc :=
  if smem (f_path f) skip then mkAcc (checked a) (skipped a + 1) (failed a)
  else if f_tagged f then a
  else if f_valid f then a
  else mkAcc (checked a) (skipped a) (failed a ++ [f_path f]).

Definition count_one (a : acc) : acc := mkAcc (checked a + 1) (skipped a) (failed a).

Definition process_arg (skip : list string) (a : acc) (x : arg) : acc :=
  match x with
  | ADir files => fold_left (fun a f => if f_qasm f then count_one (validate_file skip a f) else a) files a
  | AFile f => if f_qasm f then count_one (validate_file skip a f) else a
  end.

Definition run_cli (args : list arg) (skip : list string) : acc :=
  fold_left (process_arg skip) args (mkAcc 0 0 []).

(* exit status and the files named as failing *)
Definition cli_exit (args : list arg) (skip : list string) : Z :=
  let a := run_cli args skip in
  if checked a - skipped a =? 0 then 0
  else match failed a with [] => 0 | _ => 1 end.

Definition cli_named (args : list arg) (skip : list string) : list string :=
  let a := run_cli args skip in
  if checked a - skipped a =? 0 then [] else failed a.

(* ---------- the specification ---------- *)
Definition files_of (x : arg) : list file := match x with ADir fs => fs | AFile f => [f] end.
Definition reached (args : list arg) : list file := filter f_qasm (flat_map files_of args).
Definition examined (args : list arg) (skip : list string) : list file :=
  filter (fun f => negb (smem (f_path f) skip) && negb (f_tagged f)) (reached args).
Definition failing (args : list arg) (skip : list string) : list file :=
  filter (fun f => negb (f_valid f)) (examined args skip).

Definition verdict_spec (args : list arg) (skip : list string) : Z :=
  match failing args skip with [] => 0 | _ => 1 end.

(* ---------- proof ---------- *)
Definition is_skipped (skip : list string) (f : file) : bool := smem (f_path f) skip.
Definition fails (skip : list string) (f : file) : bool :=
  negb (smem (f_path f) skip) && negb (f_tagged f) && negb (f_valid f).

(* effect of one counted .qasm file *)
Lemma step_file skip a f :
  let a' := count_one (validate_file skip a f) in
  checked a' = checked a + 1 /\
  skipped a' = skipped a + (if is_skipped skip f then 1 else 0) /\
  failed a' = failed a ++ (if fails skip f then [f_path f] else []).
Proof.
  unfold count_one, validate_file, is_skipped, fails. simpl.
  destruct (smem (f_path f) skip); simpl; [rewrite app_nil_r; repeat split; first [reflexivity | lia]|].
  destruct (f_tagged f); simpl; [rewrite app_nil_r; repeat split; first [reflexivity | lia]|].
  destruct (f_valid f); simpl; [rewrite app_nil_r; repeat split; first [reflexivity | lia]|].
  repeat split; first [reflexivity | lia].
Qed.

Definition zcount {A} (p : A -> bool) (l : list A) : Z := Z.of_nat (List.length (filter p l)).

Lemma zcount_app {A} (p : A -> bool) l1 l2 : zcount p (l1 ++ l2) = zcount p l1 + zcount p l2.
Proof. unfold zcount. rewrite filter_app, app_length. lia. Qed.
Lemma zcount_cons {A} (p : A -> bool) x l : zcount p (x :: l) = (if p x then 1 else 0) + zcount p l.
Proof. unfold zcount. cbn [filter]. destruct (p x); cbn [List.length]; lia. Qed.

(* the accumulator after a list of (qasm or not) files *)
Lemma fold_files skip : forall files a,
  let a' := fold_left (fun a f => if f_qasm f then count_one (validate_file skip a f) else a) files a in
  checked a' = checked a + zcount f_qasm files /\
  skipped a' = skipped a + zcount (is_skipped skip) (filter f_qasm files) /\
  failed a' = failed a ++ map f_path (filter (fails skip) (filter f_qasm files)).
Proof.
  induction files as [|f files IH]; intros a; cbn [fold_left].
  - unfold zcount; cbn [filter map List.length]. rewrite app_nil_r. repeat split; first [reflexivity | lia].
  - cbn zeta in *. destruct (f_qasm f) eqn:Eq.
    + destruct (IH (count_one (validate_file skip a f))) as (Hc & Hs & Hf).
      destruct (step_file skip a f) as (H1 & H2 & H3). cbn zeta in *.
      rewrite Hc, Hs, Hf, H1, H2, H3. rewrite zcount_cons, Eq. cbn [filter]. rewrite Eq.
      rewrite zcount_cons. cbn [filter].
      destruct (is_skipped skip f), (fails skip f); cbn [map]; rewrite <- ?app_assoc; cbn [app];
        repeat split; first [reflexivity | lia].
    + destruct (IH a) as (Hc & Hs & Hf). cbn zeta in *.
      rewrite Hc, Hs, Hf, zcount_cons, Eq. cbn [filter]. rewrite Eq. repeat split; first [reflexivity | lia].
Qed.

Lemma process_arg_spec skip a x :
  let a' := process_arg skip a x in
  checked a' = checked a + zcount f_qasm (files_of x) /\
  skipped a' = skipped a + zcount (is_skipped skip) (filter f_qasm (files_of x)) /\
  failed a' = failed a ++ map f_path (filter (fails skip) (filter f_qasm (files_of x))).
Proof.
  destruct x as [files|f]; simpl.
  - apply fold_files.
  - apply (fold_files skip [f] a).
Qed.

Lemma run_spec skip : forall args a,
  let a' := fold_left (process_arg skip) args a in
  checked a' = checked a + zcount f_qasm (flat_map files_of args) /\
  skipped a' = skipped a + zcount (is_skipped skip) (filter f_qasm (flat_map files_of args)) /\
  failed a' = failed a ++ map f_path (filter (fails skip) (filter f_qasm (flat_map files_of args))).
Proof.
  induction args as [|x args IH]; intros a; cbn [fold_left flat_map].
  - unfold zcount; cbn [filter map List.length]. rewrite app_nil_r. repeat split; first [reflexivity | lia].
  - cbn zeta in *. destruct (IH (process_arg skip a x)) as (Hc & Hs & Hf).
    destruct (process_arg_spec skip a x) as (H1 & H2 & H3). cbn zeta in *.
    rewrite Hc, Hs, Hf, H1, H2, H3. rewrite !filter_app, !zcount_app, map_app, <- app_assoc.
    repeat split; first [reflexivity | lia].
Qed.

Lemma failing_is_fails args skip :
  map f_path (failing args skip) = map f_path (filter (fails skip) (reached args)).
Proof.
  unfold failing, examined, reached. f_equal.
  induction (filter f_qasm (flat_map files_of args)) as [|f l IH]; [reflexivity|].
  simpl. unfold fails at 1. destruct (negb (smem (f_path f) skip) && negb (f_tagged f)); simpl.
  - destruct (negb (f_valid f)); simpl; now rewrite IH.
  - exact IH.
Qed.

(* the files the CLI names as failing are exactly the failing examined files, in discovery order *)
Theorem run_failed args skip : failed (run_cli args skip) = map f_path (failing args skip).
Proof.
  unfold run_cli. destruct (run_spec skip args (mkAcc 0 0 [])) as (_ & _ & Hf). simpl in Hf.
  rewrite Hf, failing_is_fails. reflexivity.
Qed.

(* the "nothing to check" shortcut can never hide a failing file: every failing file is counted
   and not skipped *)
Lemma filter_le {A} (p q : A -> bool) (l : list A) : (forall x, p x = true -> q x = true) ->
  (List.length (filter p l) <= List.length (filter q l))%nat.
Proof.
  intros H. induction l as [|x l IH]; simpl; [lia|].
  destruct (p x) eqn:Ep; [rewrite (H x Ep); simpl; lia|]. destruct (q x); simpl; lia.
Qed.

Lemma counted_covers_failed args skip :
  Z.of_nat (List.length (failed (run_cli args skip))) <= checked (run_cli args skip) - skipped (run_cli args skip).
Proof.
  unfold run_cli. destruct (run_spec skip args (mkAcc 0 0 [])) as (Hc & Hs & Hf). simpl in *.
  rewrite Hc, Hs, Hf, map_length. unfold zcount. set (l := filter f_qasm (flat_map files_of args)).
  assert (Hsplit : (List.length l = List.length (filter (is_skipped skip) l) + List.length (filter (fun f => negb (is_skipped skip f)) l))%nat).
  { clear. induction l as [|x l IH]; simpl; [reflexivity|]. destruct (is_skipped skip x); simpl; lia. }
  assert (Hle : (List.length (filter (fails skip) l) <= List.length (filter (fun f => negb (is_skipped skip f)) l))%nat).
  { apply filter_le. intros x Hx. unfold fails, is_skipped in *. apply andb_true_iff in Hx as [Hx _].
    apply andb_true_iff in Hx as [Hx _]. exact Hx. }
  lia.
Qed.

(* exit status = the specification's verdict, for every tree, argument list and skip list *)
Theorem cli_exit_correct args skip : cli_exit args skip = verdict_spec args skip.
Proof.
  unfold cli_exit, verdict_spec. pose proof (counted_covers_failed args skip) as Hcov.
  pose proof (run_failed args skip) as Hf.
  destruct (checked (run_cli args skip) - skipped (run_cli args skip) =? 0) eqn:E.
  - apply Z.eqb_eq in E. rewrite E in Hcov.
    destruct (failing args skip) as [|f l]; [reflexivity|].
    rewrite Hf in Hcov. simpl in Hcov. lia.
  - rewrite Hf. destruct (failing args skip); reflexivity.
Qed.

Theorem cli_named_correct args skip : cli_named args skip = map f_path (failing args skip).
Proof.
  unfold cli_named. pose proof (counted_covers_failed args skip) as Hcov.
  pose proof (run_failed args skip) as Hf.
  destruct (checked (run_cli args skip) - skipped (run_cli args skip) =? 0) eqn:E; [|exact Hf].
  apply Z.eqb_eq in E. rewrite E in Hcov. destruct (failing args skip) as [|f l]; [reflexivity|].
  rewrite Hf in Hcov. simpl in Hcov. lia.
Qed.

(* exit status is non-zero exactly when an examined file fails *)
Corollary cli_exit_nonzero_iff args skip :
  cli_exit args skip <> 0%Z <-> exists f, In f (examined args skip) /\ f_valid f = false.
Proof.
  rewrite cli_exit_correct. unfold verdict_spec, failing. split.
  - destruct (filter _ _) as [|f l] eqn:E; [congruence|]. intros _.
    assert (Hin : In f (filter (fun f => negb (f_valid f)) (examined args skip))) by (rewrite E; now left).
    apply filter_In in Hin as [H1 H2]. exists f. split; auto. now apply negb_true_iff.
  - intros (f & Hin & Hv). assert (Hf : In f (filter (fun f => negb (f_valid f)) (examined args skip))).
    { apply filter_In. split; auto. now rewrite Hv. }
    destruct (filter _ _); [destruct Hf|discriminate].
Qed.

(* the unrepaired counting (checked -= len(skip_files)) is refuted by a one-file tree *)
Definition cli_exit_old (args : list arg) (skip : list string) : Z :=
  let a := run_cli args skip in
  if checked a - Z.of_nat (List.length skip) =? 0 then 0
  else match failed a with [] => 0 | _ => 1 end.
Example old_counting_refuted :
  let bad := mkFile "bad.qasm" true false false in
  cli_exit_old [AFile bad] ["unrelated.qasm"] = 0 /\ verdict_spec [AFile bad] ["unrelated.qasm"] = 1.
Proof. vm_compute. auto. Qed.
