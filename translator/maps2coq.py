#!/usr/bin/env python3
"""Fail-closed translator  /repo/src/pyqasm/maps.py  ->  coq/Gates/GatesGen.v

Reads the file with the Python `ast` module (never imports it) and emits, as Gallina over the
deep-embedded angle language of Aexp.v:
  * every gate-building function (straight-line: result.extend(call) ... / return call /
    return [QuantumGate(...)] / return [QuantumPhase(...)] / local angle bindings),
  * every name -> callable table (lambda or function-name entries) with the callable's own
    signature, the table list of map_qasm_op_to_callable in its order,
  * the clause chain of map_qasm_inv_op_to_callable and the sets/dicts it consults,
  * the numeric constants of CONSTANTS_MAP (checked to be the doubles nearest pi, tau, e),
  * OPERATOR_MAP as a list of (name, pyop).
A construct outside the accepted shapes makes the function Opaque (recorded in the output and in
the JSON report); a malformed table or clause chain is a hard error (exit 2).
"""
import ast
import json
import math
import sys

KW = {"at", "in", "as", "end", "fun", "let", "match", "with", "return", "if", "then", "else",
      "fix", "forall", "exists", "Type", "Prop", "Set", "using", "where", "for", "IF"}


class Untranslatable(Exception):
    pass


def vname(n):
    return "x_" + n


def fname(n):
    return "g_" + n


def coq_str(s):
    if '"' in s:
        raise Untranslatable("quote in string")
    return '"%s"' % s


def q_lit(x):
    """exact rational of a Python float as a Coq Q literal"""
    n, d = float(x).as_integer_ratio()
    return "(%d # %d)" % (n, d) if n >= 0 else "((%d) # %d)" % (n, d)


class Fn:
    def __init__(self, name, params):
        self.name = name
        self.params = params          # list of param names
        self.kinds = {p: None for p in params}
        self.lets = []                # (name, aexpr ast)
        self.items = []               # list of call items / prims
        self.opaque = None            # reason string


def is_constants_sub(node):
    return (isinstance(node, ast.Subscript) and isinstance(node.value, ast.Name)
            and node.value.id == "CONSTANTS_MAP" and isinstance(node.slice, ast.Constant)
            and isinstance(node.slice.value, str))


def angle_names(node, acc):
    """collect free names of an angle expression; raise if not an angle expression"""
    if isinstance(node, ast.Name):
        acc.add(node.id)
    elif isinstance(node, ast.Constant) and type(node.value) in (int, float):
        pass
    elif is_constants_sub(node):
        if node.slice.value not in ("pi", "tau", "euler"):
            raise Untranslatable("constant %r" % node.slice.value)
    elif isinstance(node, ast.UnaryOp) and isinstance(node.op, ast.USub):
        angle_names(node.operand, acc)
    elif isinstance(node, ast.BinOp) and isinstance(node.op, (ast.Add, ast.Sub, ast.Mult, ast.Div)):
        angle_names(node.left, acc)
        angle_names(node.right, acc)
    else:
        raise Untranslatable("angle expression %s" % ast.dump(node)[:80])


def emit_angle(node):
    if isinstance(node, ast.Name):
        return vname(node.id)
    if isinstance(node, ast.Constant):
        if type(node.value) is int:
            return "(AInt %d)" % node.value if node.value >= 0 else "(AInt (%d))" % node.value
        return "(AFlt %s)" % q_lit(node.value)
    if is_constants_sub(node):
        return {"pi": "APi", "tau": "ATau", "euler": "AEuler"}[node.slice.value]
    if isinstance(node, ast.UnaryOp):
        return "(ANeg %s)" % emit_angle(node.operand)
    op = {ast.Add: "AAdd", ast.Sub: "ASub", ast.Mult: "AMul", ast.Div: "ADiv"}[type(node.op)]
    return "(%s %s %s)" % (op, emit_angle(node.left), emit_angle(node.right))


def parse_prim_list(fn, node):
    """return [QuantumGate(...)] / [QuantumPhase(...)]"""
    if not (isinstance(node, ast.List) and len(node.elts) == 1 and isinstance(node.elts[0], ast.Call)):
        raise Untranslatable("return list shape")
    call = node.elts[0]
    if not isinstance(call.func, ast.Name) or call.args:
        raise Untranslatable("primitive constructor shape")
    kw = {k.arg: k.value for k in call.keywords}
    if call.func.id == "QuantumGate":
        if set(kw) != {"modifiers", "name", "arguments", "qubits"}:
            raise Untranslatable("QuantumGate keywords")
        if not (isinstance(kw["modifiers"], ast.List) and not kw["modifiers"].elts):
            raise Untranslatable("modifiers must be []")
        nm = kw["name"]
        if not (isinstance(nm, ast.Call) and isinstance(nm.func, ast.Name) and nm.func.id == "Identifier"
                and len(nm.keywords) == 1 and nm.keywords[0].arg == "name" and not nm.args):
            raise Untranslatable("name=Identifier(name=...)")
        nmv = nm.keywords[0].value
        lower = False
        if (isinstance(nmv, ast.Call) and isinstance(nmv.func, ast.Attribute) and nmv.func.attr == "lower"
                and not nmv.args and not nmv.keywords):
            lower = True
            nmv = nmv.func.value
        if isinstance(nmv, ast.Constant) and isinstance(nmv.value, str):
            name_e = ("S", nmv.value)
        elif isinstance(nmv, ast.Name):
            name_e = ("P", nmv.id)
            fn.kinds_req.append((nmv.id, "S"))
        else:
            raise Untranslatable("gate name expression")
        if not isinstance(kw["arguments"], ast.List):
            raise Untranslatable("arguments list")
        angs = []
        for a in kw["arguments"].elts:
            if not (isinstance(a, ast.Call) and isinstance(a.func, ast.Name) and a.func.id == "FloatLiteral"
                    and len(a.keywords) == 1 and a.keywords[0].arg == "value" and not a.args):
                raise Untranslatable("argument must be FloatLiteral(value=...)")
            e = a.keywords[0].value
            names = set()
            angle_names(e, names)
            for n in names:
                fn.kinds_req.append((n, "A"))
            angs.append(e)
        if not isinstance(kw["qubits"], ast.List):
            raise Untranslatable("qubits list")
        qs = []
        for q in kw["qubits"].elts:
            if not isinstance(q, ast.Name):
                raise Untranslatable("qubit must be a parameter name")
            fn.kinds_req.append((q.id, "Q"))
            qs.append(q.id)
        return ("prim_gate", name_e, lower, angs, qs)
    if call.func.id == "QuantumPhase":
        if set(kw) != {"modifiers", "argument", "qubits"}:
            raise Untranslatable("QuantumPhase keywords")
        if not (isinstance(kw["modifiers"], ast.List) and not kw["modifiers"].elts):
            raise Untranslatable("modifiers must be []")
        a = kw["argument"]
        if not (isinstance(a, ast.Call) and isinstance(a.func, ast.Name) and a.func.id == "FloatLiteral"
                and len(a.keywords) == 1 and a.keywords[0].arg == "value" and not a.args):
            raise Untranslatable("argument must be FloatLiteral(value=...)")
        e = a.keywords[0].value
        names = set()
        angle_names(e, names)
        for n in names:
            fn.kinds_req.append((n, "A"))
        q = kw["qubits"]
        if not isinstance(q, ast.Name):
            raise Untranslatable("phase qubits must be a parameter name")
        fn.kinds_req.append((q.id, "L"))
        return ("prim_phase", e, q.id)
    raise Untranslatable("constructor %s" % call.func.id)


def parse_call(fn, node):
    if not (isinstance(node, ast.Call) and isinstance(node.func, ast.Name) and not node.keywords):
        raise Untranslatable("call shape %s" % ast.dump(node)[:60])
    args = []
    for i, a in enumerate(node.args):
        if isinstance(a, ast.Constant) and isinstance(a.value, str):
            args.append(("S", a.value))
        elif isinstance(a, ast.Name):
            args.append(("P", a.id))
        elif isinstance(a, ast.List):
            names = []
            for q in a.elts:
                if not isinstance(q, ast.Name):
                    raise Untranslatable("list argument element")
                names.append(q.id)
                fn.kinds_req.append((q.id, "Q"))
            args.append(("L", names))
        else:
            names = set()
            angle_names(a, names)
            for n in names:
                fn.kinds_req.append((n, "A"))
            args.append(("A", a))
    return ("call", node.func.id, args)


def parse_function(name, params, body):
    fn = Fn(name, params)
    fn.kinds_req = []
    try:
        stmts = list(body)
        if stmts and isinstance(stmts[0], ast.Expr) and isinstance(stmts[0].value, ast.Constant) \
                and isinstance(stmts[0].value.value, str):
            stmts = stmts[1:]
        acc_name = None
        done = False
        for st in stmts:
            if done:
                raise Untranslatable("statement after return")
            if isinstance(st, ast.AnnAssign) and isinstance(st.target, ast.Name) \
                    and isinstance(st.value, ast.List) and not st.value.elts:
                acc_name = st.target.id
            elif isinstance(st, ast.Assign) and len(st.targets) == 1 and isinstance(st.targets[0], ast.Name):
                tgt = st.targets[0].id
                if isinstance(st.value, ast.List) and not st.value.elts:
                    acc_name = tgt
                else:
                    names = set()
                    angle_names(st.value, names)
                    for n in names:
                        fn.kinds_req.append((n, "A"))
                    fn.lets.append((tgt, st.value))
                    fn.kinds[tgt] = "A"
            elif isinstance(st, ast.Expr) and isinstance(st.value, ast.Call) \
                    and isinstance(st.value.func, ast.Attribute) and st.value.func.attr == "extend" \
                    and isinstance(st.value.func.value, ast.Name) and st.value.func.value.id == acc_name \
                    and len(st.value.args) == 1 and not st.value.keywords:
                fn.items.append(parse_call(fn, st.value.args[0]))
            elif isinstance(st, ast.Return):
                done = True
                if isinstance(st.value, ast.Name) and st.value.id == acc_name:
                    pass
                elif isinstance(st.value, ast.List):
                    if fn.items:
                        raise Untranslatable("primitive after extends")
                    fn.items.append(parse_prim_list(fn, st.value))
                elif isinstance(st.value, ast.Call):
                    if fn.items:
                        raise Untranslatable("return call after extends")
                    fn.items.append(parse_call(fn, st.value))
                else:
                    raise Untranslatable("return shape")
            else:
                raise Untranslatable("statement %s" % ast.dump(st)[:80])
        if not done:
            raise Untranslatable("no return")
    except Untranslatable as e:
        fn.opaque = str(e)
    return fn


def main():
    src_path, out_path, report_path = sys.argv[1], sys.argv[2], sys.argv[3]
    tree = ast.parse(open(src_path).read())
    funcs = {}
    assigns = {}
    for node in tree.body:
        if isinstance(node, ast.FunctionDef):
            params = [a.arg for a in node.args.args]
            if node.args.vararg or node.args.kwarg or node.args.kwonlyargs or node.args.defaults:
                continue
            funcs[node.name] = (params, node.body, node)
        elif isinstance(node, ast.Assign) and len(node.targets) == 1 and isinstance(node.targets[0], ast.Name):
            assigns[node.targets[0].id] = node.value
        elif isinstance(node, ast.AnnAssign) and isinstance(node.target, ast.Name) and node.value is not None:
            assigns[node.target.id] = node.value

    def hard(msg):
        print("maps2coq: HARD ERROR: " + msg, file=sys.stderr)
        sys.exit(2)

    # ---- map_qasm_op_to_callable: table list and loop shape ----
    if "map_qasm_op_to_callable" not in funcs:
        hard("map_qasm_op_to_callable missing")
    _, body, _ = funcs["map_qasm_op_to_callable"]
    op_maps = None
    loop_ok = False
    for st in body:
        tgt = None
        if isinstance(st, ast.AnnAssign) and isinstance(st.target, ast.Name):
            tgt, val = st.target.id, st.value
        elif isinstance(st, ast.Assign) and isinstance(st.targets[0], ast.Name):
            tgt, val = st.targets[0].id, st.value
        if tgt == "op_maps":
            if not isinstance(val, ast.List):
                hard("op_maps not a list")
            op_maps = []
            for e in val.elts:
                if not (isinstance(e, ast.Tuple) and len(e.elts) == 2 and isinstance(e.elts[0], ast.Name)
                        and isinstance(e.elts[1], ast.Constant) and type(e.elts[1].value) is int):
                    hard("op_maps entry shape")
                op_maps.append((e.elts[0].id, e.elts[1].value))
        if isinstance(st, ast.For):
            d = ast.dump(st)
            want = ("For(target=Tuple(elts=[Name(id='op_map', ctx=Store()), Name(id='qubit_count', ctx=Store())], "
                    "ctx=Store()), iter=Name(id='op_maps', ctx=Load()), body=[Try(body=[Return(value=Tuple(elts=["
                    "Subscript(value=Name(id='op_map', ctx=Load()), slice=Name(id='op_name', ctx=Load()), ctx=Load()), "
                    "Name(id='qubit_count', ctx=Load())], ctx=Load()))], handlers=[ExceptHandler(type=Name(id='KeyError', "
                    "ctx=Load()), body=[Continue()])], orelse=[], finalbody=[])], orelse=[])")
            loop_ok = (d == want)
    last = body[-1]
    raise_ok = isinstance(last, ast.Raise) and isinstance(last.exc, ast.Call) and \
        isinstance(last.exc.func, ast.Name) and last.exc.func.id == "ValidationError"
    if op_maps is None or not loop_ok or not raise_ok:
        hard("map_qasm_op_to_callable: unexpected shape (op_maps=%r loop_ok=%r raise_ok=%r)" % (op_maps, loop_ok, raise_ok))

    # ---- tables ----
    table_names = [t for t, _ in op_maps]
    extra_tables = ["U_INV_ROTATION_MAP"]
    fns = {}
    order = []

    def need_fn(name):
        if name in fns:
            return
        if name not in funcs:
            raise Untranslatable("unknown function %s" % name)
        params, fbody, _ = funcs[name]
        fn = parse_function(name, params, fbody)
        fns[name] = fn
        if fn.opaque is None:
            for it in fn.items:
                if it[0] == "call":
                    try:
                        need_fn(it[1])
                    except Untranslatable as e:
                        fn.opaque = str(e)
                        break
        order.append(name)

    tables = {}
    for t in table_names + extra_tables:
        if t not in assigns or not isinstance(assigns[t], ast.Dict):
            hard("table %s missing or not a dict literal" % t)
        entries = []
        for k, v in zip(assigns[t].keys, assigns[t].values):
            if not (isinstance(k, ast.Constant) and isinstance(k.value, str)):
                hard("table %s: non-string key" % t)
            if isinstance(v, ast.Name):
                try:
                    need_fn(v.id)
                except Untranslatable as e:
                    hard("table %s[%s]: %s" % (t, k.value, e))
                entries.append((k.value, v.id))
            elif isinstance(v, ast.Lambda):
                lname = "lam_%s_%s" % (t, "".join(c if c.isalnum() else "_" for c in k.value))
                a = v.args
                if a.vararg or a.kwarg or a.kwonlyargs or a.defaults:
                    hard("lambda signature in %s[%s]" % (t, k.value))
                params = [x.arg for x in a.args]
                fn = Fn(lname, params)
                fn.kinds_req = []
                try:
                    fn.items.append(parse_call(fn, v.body))
                    need_fn(fn.items[0][1])
                except Untranslatable as e:
                    fn.opaque = str(e)
                fns[lname] = fn
                order.append(lname)
                entries.append((k.value, lname))
            else:
                hard("table %s[%s]: value is neither a name nor a lambda" % (t, k.value))
        tables[t] = entries

    # ---- kind inference to fixpoint ----
    for fn in fns.values():
        for n, k in fn.kinds_req:
            if n in fn.kinds:
                if fn.kinds[n] not in (None, k):
                    fn.opaque = fn.opaque or ("kind clash for %s" % n)
                fn.kinds[n] = k
            else:
                fn.opaque = fn.opaque or ("free name %s" % n)
    changed = True
    while changed:
        changed = False
        for fn in fns.values():
            if fn.opaque:
                continue
            for it in fn.items:
                if it[0] != "call":
                    continue
                callee = fns.get(it[1])
                if callee is None or callee.opaque:
                    fn.opaque = "calls opaque %s" % it[1]
                    changed = True
                    break
                if len(it[2]) != len(callee.params):
                    fn.opaque = "arity mismatch calling %s" % it[1]
                    changed = True
                    break
                for (ak, av), p in zip(it[2], callee.params):
                    ck = callee.kinds[p]
                    if ak == "P":
                        if av not in fn.kinds:
                            fn.opaque = "free name %s" % av
                            changed = True
                            break
                        if ck is not None and fn.kinds[av] is None:
                            fn.kinds[av] = ck
                            changed = True
                        elif ck is None and fn.kinds[av] is not None:
                            callee.kinds[p] = fn.kinds[av]
                            changed = True
                        elif ck is not None and fn.kinds[av] != ck:
                            fn.opaque = "kind clash on %s" % av
                            changed = True
                            break
                    else:
                        if ck is None:
                            callee.kinds[p] = ak
                            changed = True
                        elif ck != ak:
                            fn.opaque = "argument kind %s for %s.%s:%s" % (ak, callee.name, p, ck)
                            changed = True
                            break
    for fn in fns.values():
        if not fn.opaque and any(fn.kinds[p] is None for p in fn.params):
            fn.opaque = "uninferred parameter kind"
    # propagate opacity
    changed = True
    while changed:
        changed = False
        for fn in fns.values():
            if fn.opaque:
                continue
            for it in fn.items:
                if it[0] == "call" and fns[it[1]].opaque:
                    fn.opaque = "calls opaque %s" % it[1]
                    changed = True

    # ---- constants ----
    cm = assigns.get("CONSTANTS_MAP")
    if not isinstance(cm, ast.Dict):
        hard("CONSTANTS_MAP missing")
    consts = {}
    for k, v in zip(cm.keys, cm.values):
        if not (isinstance(k, ast.Constant) and isinstance(k.value, str) and isinstance(v, ast.Constant)
                and type(v.value) is float):
            hard("CONSTANTS_MAP entry shape")
        consts[k.value] = v.value
    expect = {"pi": math.pi, "π": math.pi, "tau": 2 * math.pi, "τ": 2 * math.pi, "euler": math.e, "ℇ": math.e}
    if consts != expect:
        hard("CONSTANTS_MAP differs from {pi, tau, euler} doubles: %r" % consts)

    # ---- inverse chain ----
    def str_set(name):
        v = assigns.get(name)
        if isinstance(v, ast.Set) and all(isinstance(e, ast.Constant) and isinstance(e.value, str) for e in v.elts):
            return [e.value for e in v.elts]
        return None

    def str_dict(name):
        v = assigns.get(name)
        if isinstance(v, ast.Dict) and all(isinstance(k, ast.Constant) and isinstance(x, ast.Constant)
                                           and isinstance(k.value, str) and isinstance(x.value, str)
                                           for k, x in zip(v.keys, v.values)):
            return [(k.value, x.value) for k, x in zip(v.keys, v.values)]
        return None

    if "map_qasm_inv_op_to_callable" not in funcs:
        hard("map_qasm_inv_op_to_callable missing")
    _, ibody, _ = funcs["map_qasm_inv_op_to_callable"]
    ibody = [s for s in ibody if not (isinstance(s, ast.Expr) and isinstance(s.value, ast.Constant))]
    clauses = []
    for st in ibody[:-1]:
        if not (isinstance(st, ast.If) and not st.orelse and isinstance(st.test, ast.Compare)
                and isinstance(st.test.left, ast.Name) and st.test.left.id == "op_name"
                and len(st.test.ops) == 1 and isinstance(st.test.ops[0], ast.In)
                and isinstance(st.test.comparators[0], ast.Name)):
            hard("inverse chain: clause shape")
        member = st.test.comparators[0].id
        b = st.body
        rename = None
        keyvar = "op_name"
        if len(b) == 2:
            a0 = b[0]
            if not (isinstance(a0, ast.Assign) and isinstance(a0.targets[0], ast.Name)
                    and isinstance(a0.value, ast.Subscript) and isinstance(a0.value.value, ast.Name)
                    and isinstance(a0.value.slice, ast.Name) and a0.value.slice.id == "op_name"):
                hard("inverse chain: rename shape")
            rename = a0.value.value.id
            keyvar = a0.targets[0].id
            b = b[1:]
        if not (len(b) == 1 and isinstance(b[0], ast.Return) and isinstance(b[0].value, ast.Tuple)
                and len(b[0].value.elts) == 3):
            hard("inverse chain: return shape")
        t0, t1, t2 = b[0].value.elts
        if not (isinstance(t0, ast.Subscript) and isinstance(t0.value, ast.Name)
                and isinstance(t0.slice, ast.Name) and t0.slice.id == keyvar
                and isinstance(t1, ast.Constant) and type(t1.value) is int
                and isinstance(t2, ast.Attribute) and isinstance(t2.value, ast.Name)
                and t2.value.id == "InversionOp" and t2.attr in ("NO_OP", "INVERT_ROTATION")):
            hard("inverse chain: tuple shape")
        table = t0.value.id
        if table not in tables:
            hard("inverse chain: unknown table %s" % table)
        if member in tables:
            mem_e = "(map fst %s)" % member
        elif str_set(member) is not None:
            mem_e = "[" + "; ".join(coq_str(s) for s in sorted(str_set(member))) + "]"
        elif str_dict(member) is not None:
            mem_e = "[" + "; ".join(coq_str(k) for k, _ in str_dict(member)) + "]"
        else:
            hard("inverse chain: membership container %s" % member)
        if rename is not None:
            rd = str_dict(rename)
            if rd is None:
                hard("inverse chain: rename dict %s" % rename)
            ren_e = "[" + "; ".join("(%s, %s)" % (coq_str(k), coq_str(v)) for k, v in rd) + "]"
        else:
            ren_e = "[]"
        clauses.append((mem_e, ren_e, table, t1.value, t2.attr == "INVERT_ROTATION"))
    lastr = ibody[-1]
    if not (isinstance(lastr, ast.Raise) and isinstance(lastr.exc, ast.Call)
            and isinstance(lastr.exc.func, ast.Name) and lastr.exc.func.id == "ValidationError"):
        hard("inverse chain: final raise")

    # ---- OPERATOR_MAP ----
    om = assigns.get("OPERATOR_MAP")
    if not isinstance(om, ast.Dict):
        hard("OPERATOR_MAP missing")
    binops = {ast.Add: "OpAdd", ast.Sub: "OpSub", ast.Mult: "OpMul", ast.Div: "OpDiv", ast.Mod: "OpMod",
              ast.BitXor: "OpXor", ast.BitAnd: "OpBitAnd", ast.BitOr: "OpBitOr", ast.LShift: "OpShl",
              ast.RShift: "OpShr", ast.FloorDiv: "OpFloorDiv", ast.Pow: "OpPow"}
    cmpops = {ast.Eq: "OpEq", ast.NotEq: "OpNe", ast.Lt: "OpLt", ast.Gt: "OpGt", ast.LtE: "OpLe", ast.GtE: "OpGe"}
    unops = {ast.Invert: "OpInvert", ast.Not: "OpNot", ast.USub: "OpNeg", ast.UAdd: "OpPos"}
    ops = []
    # functions of the standard `operator` module (the module must be imported under that name and not rebound)
    std_ops = {"add": "Bin OpAdd", "sub": "Bin OpSub", "mul": "Bin OpMul", "truediv": "Bin OpDiv", "mod": "Bin OpMod",
               "xor": "Bin OpXor", "and_": "Bin OpBitAnd", "or_": "Bin OpBitOr", "lshift": "Bin OpShl", "rshift": "Bin OpShr",
               "floordiv": "Bin OpFloorDiv", "pow": "Bin OpPow", "eq": "Bin OpEq", "ne": "Bin OpNe", "lt": "Bin OpLt",
               "gt": "Bin OpGt", "le": "Bin OpLe", "ge": "Bin OpGe", "invert": "Un OpInvert", "not_": "Un OpNot",
               "neg": "Un OpNeg", "pos": "Un OpPos"}
    fdefs = {n.name: n for n in tree.body if isinstance(n, ast.FunctionDef)}
    if len(fdefs) != sum(1 for n in tree.body if isinstance(n, ast.FunctionDef)):
        hard("a function is defined twice at module level")
    operator_is_std = (any(isinstance(n, ast.Import) and any(a.name == "operator" and a.asname is None for a in n.names) for n in tree.body)
                       and "operator" not in assigns and "operator" not in fdefs)
    for k, v in zip(om.keys, om.values):
        if not (isinstance(k, ast.Constant) and isinstance(k.value, str)):
            hard("OPERATOR_MAP entry shape")
        if isinstance(v, ast.Attribute) and isinstance(v.value, ast.Name) and v.value.id == "operator" and operator_is_std and v.attr in std_ops:
            ops.append((k.value, std_ops[v.attr]))
            continue
        if isinstance(v, ast.Name) and v.id in fdefs and v.id not in assigns:
            # a module-level  def f(x, y): return <expr>  is read like the lambda  lambda x, y: <expr>
            fd = fdefs[v.id]
            body = [st for st in fd.body if not (isinstance(st, ast.Expr) and isinstance(st.value, ast.Constant) and isinstance(st.value.value, str))]
            if not (len(body) == 1 and isinstance(body[0], ast.Return) and body[0].value is not None and not fd.decorator_list
                    and not fd.args.vararg and not fd.args.kwarg and not fd.args.kwonlyargs and not fd.args.defaults):
                hard("OPERATOR_MAP[%s]: function %s is not a single return" % (k.value, v.id))
            v = ast.Lambda(args=fd.args, body=body[0].value)
        if not isinstance(v, ast.Lambda):
            hard("OPERATOR_MAP entry shape")
        ps = [a.arg for a in v.args.args]
        b = v.body
        e = None
        if len(ps) == 2:
            x, y = ps
            def is_xy(l, r):
                return isinstance(l, ast.Name) and isinstance(r, ast.Name) and l.id == x and r.id == y
            if isinstance(b, ast.BinOp) and type(b.op) in binops and is_xy(b.left, b.right):
                e = "Bin " + binops[type(b.op)]
            elif isinstance(b, ast.Compare) and len(b.ops) == 1 and type(b.ops[0]) in cmpops \
                    and is_xy(b.left, b.comparators[0]):
                e = "Bin " + cmpops[type(b.ops[0])]
            elif isinstance(b, ast.BoolOp) and len(b.values) == 2 and is_xy(b.values[0], b.values[1]):
                e = "Bin " + ("OpAnd" if isinstance(b.op, ast.And) else "OpOr")     # returns an operand
            elif isinstance(b, ast.Call) and isinstance(b.func, ast.Name) and b.func.id == "bool" and len(b.args) == 1 \
                    and not b.keywords and isinstance(b.args[0], ast.BoolOp) and len(b.args[0].values) == 2 \
                    and is_xy(b.args[0].values[0], b.args[0].values[1]):
                e = "Bin " + ("OpLAnd" if isinstance(b.args[0].op, ast.And) else "OpLOr")   # bool(x and y)
        elif len(ps) == 1:
            if isinstance(b, ast.UnaryOp) and type(b.op) in unops and isinstance(b.operand, ast.Name) \
                    and b.operand.id == ps[0]:
                e = "Un " + unops[type(b.op)]
        if e is None:
            hard("OPERATOR_MAP[%s]: lambda body not a single operator on its parameters" % k.value)
        ops.append((k.value, e))

    # ---- emit ----
    out = []
    w = out.append
    w("(* GENERATED by translator/maps2coq.py from %s -- do not edit *)" % src_path)
    w("From Coq Require Import String List ZArith QArith.")
    w("From Verif Require Import Aexp BGate.")
    w("Import ListNotations.")
    w("Open Scope string_scope.")
    w("Open Scope list_scope.")
    w("")
    w("Section Gen.")
    w("Variable Q : Type.")
    w("")
    kind_ty = {"S": "string", "A": "aexp", "Q": "Q", "L": "list Q"}

    def emit_arg(fn, a):
        k, v = a
        if k == "S":
            return coq_str(v)
        if k == "P":
            return vname(v)
        if k == "L":
            return "[" + "; ".join(vname(x) for x in v) + "]"
        return emit_angle(v)

    opaque = {}
    for name in order:
        fn = fns[name]
        if fn.opaque:
            opaque[name] = fn.opaque
            w("(* OPAQUE %s : %s *)" % (name, fn.opaque))
            continue
        ps = " ".join("(%s : %s)" % (vname(p), kind_ty[fn.kinds[p]]) for p in fn.params)
        w("Definition %s %s : list (bgate Q) :=" % (fname(name), ps))
        for ln, le in fn.lets:
            w("  let %s := %s in" % (vname(ln), emit_angle(le)))
        parts = []
        for it in fn.items:
            if it[0] == "call":
                parts.append("(%s %s)" % (fname(it[1]), " ".join(emit_arg(fn, a) for a in it[2])))
            elif it[0] == "prim_gate":
                _, name_e, lower, angs, qs = it
                ne = coq_str(name_e[1]) if name_e[0] == "S" else vname(name_e[1])
                if lower:
                    ne = "(str_lower %s)" % ne
                parts.append("[BG %s [%s] [%s]]" % (ne, "; ".join(emit_angle(a) for a in angs),
                                                     "; ".join(vname(q) for q in qs)))
            else:
                _, e, q = it
                parts.append("[BPhase %s %s]" % (emit_angle(e), vname(q)))
        w("  " + " ++ ".join(parts) + ".")
        w("")

    # wrappers
    def sig(fn):
        ks = [fn.kinds[p] for p in fn.params]
        na = 0
        while na < len(ks) and ks[na] == "A":
            na += 1
        if any(k != "Q" for k in ks[na:]):
            return None
        return na, len(ks) - na

    w("Definition entry := (nat * nat * (list (garg Q) -> option (list (bgate Q))))%type.")
    w("")
    for name in order:
        fn = fns[name]
        used = any(name == f for t in tables.values() for _, f in t)
        if not used:
            continue
        s = None if fn.opaque else sig(fn)
        if s is None:
            if not fn.opaque:
                opaque[name] = "signature is not angles* qubits*"
            w("Definition w_%s : option entry := None.  (* opaque *)" % name)
            continue
        pats = "; ".join(("GA %s" if fn.kinds[p] == "A" else "GQ %s") % vname(p) for p in fn.params)
        w("Definition w_%s : option entry := Some (%d%%nat, %d%%nat, fun args =>" % (name, s[0], s[1]))
        w("  match args with [%s] => Some (%s %s) | _ => None end)." %
          (pats, fname(name), " ".join(vname(p) for p in fn.params)))
    w("")
    for t, entries in tables.items():
        w("Definition %s : list (string * option entry) :=" % t)
        w("  [" + ";\n   ".join("(%s, w_%s)" % (coq_str(k), f) for k, f in entries) + "].")
        w("")
    w("Definition op_maps : list (list (string * option entry) * nat) :=")
    w("  [" + "; ".join("(%s, %d%%nat)" % (t, n) for t, n in op_maps) + "].")
    w("")
    w("(* (members, rename, table, arity, invert_rotation) in the order of the if-chain *)")
    w("Definition inv_clauses : list (list string * list (string * string) * list (string * option entry) * nat * bool) :=")
    w("  [" + ";\n   ".join("(%s, %s, %s, %d%%nat, %s)" % (m, r, t, n, "true" if inv else "false")
                            for m, r, t, n, inv in clauses) + "].")
    w("")
    w("End Gen.")
    w("")
    w("(* CONSTANTS_MAP doubles, as exact rationals *)")
    w("Definition CONST_pi : Q := %s." % q_lit(math.pi))
    w("Definition CONST_tau : Q := %s." % q_lit(2 * math.pi))
    w("Definition CONST_euler : Q := %s." % q_lit(math.e))
    w("Definition constant_names : list string := [%s]." % "; ".join(coq_str(k) for k in consts))
    w("")
    w("Definition OPERATOR_MAP : list (string * pyop) :=")
    w("  [" + "; ".join("(%s, %s)" % (coq_str(k), e) for k, e in ops) + "].")
    w("")
    w("Definition opaque_functions : list string := [%s]." % "; ".join(coq_str(k) for k in opaque))
    open(out_path, "w").write("\n".join(out) + "\n")
    report = {
        "source": src_path,
        "functions_translated": [n for n in order if n not in opaque],
        "opaque": opaque,
        "tables": {t: [k for k, _ in e] for t, e in tables.items()},
        "op_maps": op_maps,
        "inverse_clauses": len(clauses),
    }
    json.dump(report, open(report_path, "w"), indent=1)


if __name__ == "__main__":
    main()
