#!/usr/bin/env python3
"""Fail-closed translator
     /repo/src/pyqasm/maps.py       qasm_variable_type_cast, VARIABLE_TYPE_CAST_MAP, VARIABLE_TYPE_MAP, LIMITS_MAP
     /repo/src/pyqasm/validator.py  Qasm3Validator.validate_variable_assignment_value
  -> coq/Lang/CastGen.v

The two functions are read with the Python `ast` module (never imported) and compiled, statement by
statement, into Gallina over the primitives of coq/Lang/CastPrim.v: every Python expression becomes
a term of type [res pyval] (so evaluation order and exceptions are kept), every statement list a
continuation.  Accepted: assignments (also tuple-to-tuple), annotated assignments, if / elif / else,
`raise ValidationError(...)`, `raise_qasm3_error(...)`, try/except KeyError around a table lookup,
return, pass; expressions: names, numeric constants, + - * % **, unary -, < > == !=, and/or/not,
bool()/int()/float(), isinstance, conditional expressions, table lookups with a constant key.
Anything else is a hard error (exit 2): the generated file is then replaced by one that does not
compile, so every theorem that depends on it stops checking.

usage: cast2coq.py <maps.py> <validator.py> <out.v>
"""
import ast
import sys

KIND_OF_CLASS = {"BoolType": "KBool", "IntType": "KInt", "Qasm3IntType": "KInt", "UintType": "KUint", "FloatType": "KFloat",
                 "BitType": "KBit", "AngleType": "KAngle", "ComplexType": "KComplex"}
ALL_KINDS = ["KInt", "KUint", "KFloat", "KBool", "KBit", "KAngle", "KComplex", "KQubit", "KOtherT"]
TAG_OF_PYTYPE = {"int": "TgInt", "float": "TgFloat", "bool": "TgBool"}
NUMPY_TWIN = {"int": "int64", "float": "float64", "bool": "bool_"}     # np.<twin> must accompany the Python type
NUMPY_TAG = {"int64": "TgInt", "uint64": "TgInt", "float64": "TgFloat", "bool_": "TgBool"}


class Untranslatable(Exception):
    pass


def fail(node, why):
    raise Untranslatable("line %s: %s" % (getattr(node, "lineno", "?"), why))


def cZ(n):
    return "(%d)%%Z" % n


def cfloat(f):
    if f != f or f in (float("inf"), float("-inf")):
        raise Untranslatable("non-finite float constant")
    return "(%s)%%float" % float(f).hex()


def const_fold(node, tables):
    """Python value of a constant numeric expression (int / float arithmetic, table entries)"""
    if isinstance(node, ast.Constant) and isinstance(node.value, (int, float)) and not isinstance(node.value, bool):
        return node.value
    if isinstance(node, ast.UnaryOp) and isinstance(node.op, ast.USub):
        return -const_fold(node.operand, tables)
    if isinstance(node, ast.BinOp) and isinstance(node.op, (ast.Add, ast.Sub, ast.Mult, ast.Pow)):
        a, b = const_fold(node.left, tables), const_fold(node.right, tables)
        if isinstance(node.op, ast.Pow) and not (isinstance(a, int) and isinstance(b, int) and 0 <= b <= 4096):
            fail(node, "constant power outside int ** small int")
        return {ast.Add: lambda: a + b, ast.Sub: lambda: a - b, ast.Mult: lambda: a * b, ast.Pow: lambda: a ** b}[type(node.op)]()
    if isinstance(node, ast.Subscript) and isinstance(node.value, ast.Name) and node.value.id in tables \
            and isinstance(node.slice, ast.Constant) and isinstance(node.slice.value, str):
        t = tables[node.value.id]
        if node.slice.value not in t:
            fail(node, "missing key %r" % node.slice.value)
        return t[node.slice.value]
    fail(node, "not a constant expression")


def lit(v):
    if isinstance(v, bool):
        return "(Ok (VBool %s))" % ("true" if v else "false")
    if isinstance(v, int):
        return "(Ok (VInt %s))" % cZ(v)
    if isinstance(v, float):
        return "(Ok (VFloat %s))" % cfloat(v)
    raise Untranslatable("constant %r" % (v,))


class Ctx:
    def __init__(self, kind_vars, tag_vars, val_vars, attr_vals, const_tables):
        self.kind_vars = set(kind_vars)      # python names holding the OpenQASM type class -> Coq `k`
        self.tag_vars = dict(tag_vars)       # python name -> Coq term of type option pytag / pytag
        self.val_vars = dict(val_vars)       # python name -> Coq identifier (pyval)
        self.attr_vals = dict(attr_vals)     # "variable.base_size" -> Coq identifier
        self.const_tables = const_tables
        self.n = 0

    def fresh(self, base):
        self.n += 1
        return "%s_%d" % (base, self.n)


def attr_path(node):
    parts = []
    while isinstance(node, ast.Attribute):
        parts.append(node.attr)
        node = node.value
    if isinstance(node, ast.Name):
        parts.append(node.id)
        return ".".join(reversed(parts))
    return None


def is_constant_expr(node, ctx):
    try:
        const_fold(node, ctx.const_tables)
        return True
    except Untranslatable:
        return False


def expr(node, ctx):
    """Coq term of type res pyval"""
    if is_constant_expr(node, ctx):
        return lit(const_fold(node, ctx.const_tables))
    if isinstance(node, ast.Constant):
        if isinstance(node.value, bool):
            return lit(node.value)
        fail(node, "constant %r" % (node.value,))
    if isinstance(node, ast.Name):
        if node.id in ctx.val_vars:
            return "(Ok %s)" % ctx.val_vars[node.id]
        fail(node, "name %s used as a value" % node.id)
    if isinstance(node, ast.Attribute):
        p = attr_path(node)
        if p in ctx.attr_vals:
            return "(Ok %s)" % ctx.attr_vals[p]
        fail(node, "attribute %s" % p)
    if isinstance(node, ast.UnaryOp):
        if isinstance(node.op, ast.USub):
            return "(b_neg %s)" % expr(node.operand, ctx)
        if isinstance(node.op, ast.Not):
            return "(b_not %s)" % expr(node.operand, ctx)
        fail(node, "unary operator")
    if isinstance(node, ast.BinOp):
        ops = {ast.Add: "b_add", ast.Sub: "b_sub", ast.Mult: "b_mul", ast.Mod: "b_mod", ast.Pow: "b_pow"}
        if type(node.op) not in ops:
            fail(node, "binary operator %s" % type(node.op).__name__)
        return "(%s %s %s)" % (ops[type(node.op)], expr(node.left, ctx), expr(node.right, ctx))
    if isinstance(node, ast.BoolOp):
        f = "b_or" if isinstance(node.op, ast.Or) else "b_and"
        t = expr(node.values[-1], ctx)
        for v in reversed(node.values[:-1]):
            t = "(%s %s %s)" % (f, expr(v, ctx), t)
        return t
    if isinstance(node, ast.IfExp):
        return "(b_ifexp %s %s %s)" % (expr(node.test, ctx), expr(node.body, ctx), expr(node.orelse, ctx))
    if isinstance(node, ast.Compare):
        if len(node.ops) != 1:
            fail(node, "chained comparison")
        op, l, r = node.ops[0], node.left, node.comparators[0]
        # the OpenQASM type class against a class name
        if isinstance(l, ast.Name) and l.id in ctx.kind_vars and isinstance(r, ast.Name) and r.id in KIND_OF_CLASS \
                and isinstance(op, (ast.Eq, ast.NotEq)):
            t = "(vkind_eqb k %s)" % KIND_OF_CLASS[r.id]
            return "(Ok (VBool %s))" % (t if isinstance(op, ast.Eq) else "(negb %s)" % t)
        # a Python type against int / float / bool
        if isinstance(l, ast.Name) and l.id in ctx.tag_vars and isinstance(r, ast.Name) and r.id in TAG_OF_PYTYPE \
                and isinstance(op, (ast.Eq, ast.NotEq)):
            t = "(tag_eqb %s %s)" % (ctx.tag_vars[l.id], TAG_OF_PYTYPE[r.id])
            return "(Ok (VBool %s))" % (t if isinstance(op, ast.Eq) else "(negb %s)" % t)
        # type(x) [not] in CAST_TABLE[type class]
        if isinstance(l, ast.Name) and l.id in ctx.tag_vars and isinstance(op, (ast.In, ast.NotIn)) \
                and isinstance(r, ast.Subscript) and isinstance(r.value, ast.Name) and r.value.id == "VARIABLE_TYPE_CAST_MAP" \
                and isinstance(r.slice, ast.Name) and r.slice.id in ctx.kind_vars:
            t = "(tag_mem %s l)" % ctx.tag_vars[l.id]
            if isinstance(op, ast.NotIn):
                t = "(negb %s)" % t
            return "(match cast_table_gen k with Some l => Ok (VBool %s) | None => Err (EInternal KKey) end)" % t
        ops = {ast.Lt: "b_lt", ast.Gt: "b_gt", ast.Eq: "b_eq", ast.NotEq: "b_ne"}
        if type(op) not in ops:
            fail(node, "comparison %s" % type(op).__name__)
        return "(%s %s %s)" % (ops[type(op)], expr(l, ctx), expr(r, ctx))
    if isinstance(node, ast.Call) and isinstance(node.func, ast.Name) and not node.keywords:
        f = node.func.id
        if f in ("bool", "int", "float") and len(node.args) == 1:
            return "(b_%s %s)" % (f, expr(node.args[0], ctx))
        if f == "isinstance" and len(node.args) == 2:
            ts = node.args[1].elts if isinstance(node.args[1], ast.Tuple) else [node.args[1]]
            tags = []
            for t in ts:
                if isinstance(t, ast.Name) and t.id in TAG_OF_PYTYPE:
                    tags.append(TAG_OF_PYTYPE[t.id])
                elif isinstance(t, ast.Attribute) and isinstance(t.value, ast.Name) and t.value.id == "np" and t.attr in NUMPY_TAG:
                    tags.append(NUMPY_TAG[t.attr])
                else:
                    fail(node, "isinstance against an unknown type")
            return "(b_isinstance %s [%s])" % (expr(node.args[0], ctx), "; ".join(dict.fromkeys(tags)))
        if f == "qasm_variable_type_cast" and len(node.args) == 4:
            a0 = node.args[0]
            if not (isinstance(a0, ast.Name) and a0.id in ctx.kind_vars):
                fail(node, "first argument of qasm_variable_type_cast is not the type class")
            return "(do sz_ <- %s;; do rv_ <- %s;; type_cast_gen k sz_ rv_)" % (expr(node.args[2], ctx), expr(node.args[3], ctx))
    fail(node, "expression %s" % type(node).__name__)


def raise_term(node):
    """Coq error of a raise statement / raise_qasm3_error call"""
    errs = {"ValidationError": "EValidation", "TypeError": "(EInternal KType)", "ValueError": "(EInternal KValue)",
            "KeyError": "(EInternal KKey)"}
    if isinstance(node, ast.Raise):
        e = node.exc
        if isinstance(e, ast.Call) and isinstance(e.func, ast.Name) and e.func.id in errs:
            return errs[e.func.id]
        fail(node, "raise of an unknown exception")
    call = node.value
    et = None
    if len(call.args) >= 2:
        et = call.args[1]
    for kw in call.keywords:
        if kw.arg == "err_type":
            et = kw.value
        elif kw.arg not in ("span", "raised_from", "message"):
            fail(node, "raise_qasm3_error keyword %s" % kw.arg)
    if et is None:
        return "EValidation"
    if isinstance(et, ast.Name) and et.id in errs:
        return errs[et.id]
    fail(node, "raise_qasm3_error with an unknown error type")


def is_raise(st):
    return isinstance(st, ast.Raise) or (isinstance(st, ast.Expr) and isinstance(st.value, ast.Call)
                                         and isinstance(st.value.func, ast.Name) and st.value.func.id == "raise_qasm3_error")


def stmts(body, ctx, ind):
    """Coq term (res pyval) of a statement list run to the end of the function"""
    pad = "  " * ind
    if not body:
        return pad + "Ok VNone"                         # falling off the end returns None
    st, rest = body[0], body[1:]
    if isinstance(st, ast.Expr) and isinstance(st.value, ast.Constant) and isinstance(st.value.value, str):
        return stmts(rest, ctx, ind)                    # docstring
    if isinstance(st, ast.Pass):
        return stmts(rest, ctx, ind)
    if is_raise(st):
        return pad + "Err %s" % raise_term(st)
    if isinstance(st, ast.Return):
        return pad + (expr(st.value, ctx) if st.value is not None else "Ok VNone")
    if isinstance(st, ast.AnnAssign) and isinstance(st.target, ast.Name) and st.value is not None:
        st = ast.Assign(targets=[st.target], value=st.value, lineno=st.lineno)
    if isinstance(st, ast.Assign) and len(st.targets) == 1:
        tgt, val = st.targets[0], st.value
        if isinstance(tgt, ast.Name):
            # bindings of the type class / the Python type of a value are tracked, not computed
            if attr_path(val) == "variable.base_type.__class__":
                ctx.kind_vars.add(tgt.id)
                return stmts(rest, ctx, ind)
            if isinstance(val, ast.Call) and isinstance(val.func, ast.Name) and val.func.id == "type" and len(val.args) == 1 \
                    and isinstance(val.args[0], ast.Name) and val.args[0].id in ctx.val_vars:
                ctx.tag_vars[tgt.id] = "(tag_of %s)" % ctx.val_vars[val.args[0].id]
                return stmts(rest, ctx, ind)
            v = ctx.fresh("v_" + tgt.id)
            e = expr(val, ctx)
            ctx.val_vars[tgt.id] = v
            return pad + "do %s <- %s;;\n" % (v, e) + stmts(rest, ctx, ind)
        if isinstance(tgt, ast.Tuple) and isinstance(val, ast.Tuple) and len(tgt.elts) == len(val.elts) \
                and all(isinstance(t, ast.Name) for t in tgt.elts):
            es = [expr(x, ctx) for x in val.elts]          # all right-hand sides first
            out = ""
            for t, e in zip(tgt.elts, es):
                v = ctx.fresh("v_" + t.id)
                out += pad + "do %s <- %s;;\n" % (v, e)
                ctx.val_vars[t.id] = v
            return out + stmts(rest, ctx, ind)
        fail(st, "assignment shape")
    if isinstance(st, ast.Try):
        # try: x = TABLE[type class]  except KeyError: raise ...
        if len(st.body) == 1 and isinstance(st.body[0], ast.Assign) and len(st.handlers) == 1 and not st.orelse and not st.finalbody:
            a, h = st.body[0], st.handlers[0]
            if isinstance(a.targets[0], ast.Name) and isinstance(a.value, ast.Subscript) and isinstance(a.value.value, ast.Name) \
                    and a.value.value.id == "VARIABLE_TYPE_MAP" and isinstance(a.value.slice, ast.Name) and a.value.slice.id in ctx.kind_vars \
                    and isinstance(h.type, ast.Name) and h.type.id == "KeyError" and len(h.body) == 1 and is_raise(h.body[0]):
                v = ctx.fresh("t_" + a.targets[0].id)
                ctx.tag_vars[a.targets[0].id] = v
                return (pad + "match type_map_gen k with\n" + pad + "| None => Err %s\n" % raise_term(h.body[0])
                        + pad + "| Some %s =>\n" % v + stmts(rest, ctx, ind + 1) + "\n" + pad + "end")
        fail(st, "try statement shape")
    if isinstance(st, ast.If):
        # both arms continue with the statements after the if: variables assigned in an arm are its own
        saved = (dict(ctx.val_vars), dict(ctx.tag_vars), set(ctx.kind_vars))
        t = expr(st.test, ctx)
        a = stmts(list(st.body) + rest, ctx, ind + 1)
        ctx.val_vars, ctx.tag_vars, ctx.kind_vars = dict(saved[0]), dict(saved[1]), set(saved[2])
        b = stmts(list(st.orelse) + rest, ctx, ind + 1)
        ctx.val_vars, ctx.tag_vars, ctx.kind_vars = saved
        return pad + "b_test %s\n" % t + pad + "(\n" + a + "\n" + pad + ")\n" + pad + "(\n" + b + "\n" + pad + ")"
    fail(st, "statement %s" % type(st).__name__)


def find_func(tree, name):
    for node in ast.walk(tree):
        if isinstance(node, ast.FunctionDef) and node.name == name:
            return node
    raise Untranslatable("function %s not found" % name)


def find_assign(tree, name):
    for node in tree.body:
        if isinstance(node, ast.Assign) and len(node.targets) == 1 and isinstance(node.targets[0], ast.Name) and node.targets[0].id == name:
            return node.value
        if isinstance(node, ast.AnnAssign) and isinstance(node.target, ast.Name) and node.target.id == name:
            return node.value
    raise Untranslatable("table %s not found" % name)


def type_tables(maps_tree):
    """VARIABLE_TYPE_CAST_MAP : kind -> list of tags ; VARIABLE_TYPE_MAP : kind -> tag"""
    cast, tmap = {}, {}
    d = find_assign(maps_tree, "VARIABLE_TYPE_CAST_MAP")
    if not isinstance(d, ast.Dict):
        raise Untranslatable("VARIABLE_TYPE_CAST_MAP is not a dict literal")
    def tuple_elts(node, depth=0):
        """elements of a tuple given as a literal, as a module-level name bound once to such a tuple, or as a `+` of those"""
        if isinstance(node, ast.Tuple):
            return list(node.elts)
        if isinstance(node, ast.Name) and depth < 4:
            bound = [n for n in maps_tree.body if isinstance(n, (ast.Assign, ast.AnnAssign))
                     and any(isinstance(t, ast.Name) and t.id == node.id for t in (n.targets if isinstance(n, ast.Assign) else [n.target]))]
            if len(bound) != 1:
                fail(node, "tuple name %s is not bound exactly once at module level" % node.id)
            return tuple_elts(bound[0].value, depth + 1)
        if isinstance(node, ast.BinOp) and isinstance(node.op, ast.Add) and depth < 4:
            return tuple_elts(node.left, depth + 1) + tuple_elts(node.right, depth + 1)
        fail(node, "VARIABLE_TYPE_CAST_MAP entry is not a tuple of types")
    for key, val in zip(d.keys, d.values):
        if not (isinstance(key, ast.Name) and key.id in KIND_OF_CLASS):
            fail(key, "VARIABLE_TYPE_CAST_MAP entry shape")
        py, npy = [], []
        for e in tuple_elts(val):
            if isinstance(e, ast.Name) and e.id in TAG_OF_PYTYPE:
                py.append(e.id)
            elif isinstance(e, ast.Attribute) and isinstance(e.value, ast.Name) and e.value.id == "np" and e.attr in NUMPY_TAG:
                npy.append(e.attr)
            else:
                fail(e, "unknown type in VARIABLE_TYPE_CAST_MAP")
        # the model does not distinguish numpy scalars from Python ones: the table must not either
        for p in py:
            if NUMPY_TWIN[p] not in npy:
                fail(key, "cast table lists %s without np.%s" % (p, NUMPY_TWIN[p]))
        for n in npy:
            if NUMPY_TAG[n] not in [TAG_OF_PYTYPE[p] for p in py]:
                fail(key, "cast table lists np.%s without its Python type" % n)
        # the table is only ever used through `in`: the tags are emitted in one fixed order, so that reordering or
        # regrouping the tuple in the source regenerates the same file
        tags = set(TAG_OF_PYTYPE[p] for p in py)
        cast[KIND_OF_CLASS[key.id]] = [t for t in ("TgBool", "TgInt", "TgFloat") if t in tags]
    d = find_assign(maps_tree, "VARIABLE_TYPE_MAP")
    if not isinstance(d, ast.Dict):
        raise Untranslatable("VARIABLE_TYPE_MAP is not a dict literal")
    for key, val in zip(d.keys, d.values):
        if not (isinstance(key, ast.Name) and key.id in KIND_OF_CLASS and isinstance(val, ast.Name)):
            fail(key, "VARIABLE_TYPE_MAP entry shape")
        tmap[KIND_OF_CLASS[key.id]] = TAG_OF_PYTYPE.get(val.id, "TgNone")      # complex: no tag of the model
    return cast, tmap


def const_table(maps_tree, name):
    d = find_assign(maps_tree, name)
    if not isinstance(d, ast.Dict):
        raise Untranslatable("%s is not a dict literal" % name)
    out = {}
    for key, val in zip(d.keys, d.values):
        if not (isinstance(key, ast.Constant) and isinstance(key.value, str)):
            fail(key, "%s key" % name)
        out[key.value] = const_fold(val, {})
    return out


def kind_match(table, render, default):
    lines = ["  match k with"]
    for kd in ALL_KINDS:
        if kd in table:
            lines.append("  | %s => %s" % (kd, render(table[kd])))
    if len(table) < len(ALL_KINDS):
        lines.append("  | _ => %s" % default)
    lines.append("  end.")
    return "\n".join(lines)


def translate(maps_src, validator_src):
    mt, vt = ast.parse(maps_src), ast.parse(validator_src)
    cast, tmap = type_tables(mt)
    limits = const_table(mt, "LIMITS_MAP")
    out = ["(* GENERATED by translator/cast2coq.py from src/pyqasm/maps.py and src/pyqasm/validator.py -- do not edit *)",
           "From Coq Require Import ZArith List Bool String PrimFloat.",
           "From Verif Require Import BGate PyVal Ast State CastPrim.",
           "Import ListNotations.", "Open Scope Z_scope.", "",
           "(* maps.VARIABLE_TYPE_CAST_MAP *)",
           "Definition cast_table_gen (k : vkind) : option (list pytag) :=",
           kind_match(cast, lambda l: "Some [%s]" % "; ".join(l), "None"), "",
           "(* maps.VARIABLE_TYPE_MAP *)",
           "Definition type_map_gen (k : vkind) : option pytag :=",
           kind_match(tmap, lambda t: "Some %s" % t, "None"), ""]
    # maps.qasm_variable_type_cast(openqasm_type, var_name, base_size, rhs_value)
    f = find_func(mt, "qasm_variable_type_cast")
    params = [a.arg for a in f.args.args]
    if len(params) != 4 or f.args.vararg or f.args.kwarg or f.args.kwonlyargs or f.args.defaults:
        raise Untranslatable("signature of qasm_variable_type_cast")
    ctx = Ctx([params[0]], {}, {params[2]: "base_size", params[3]: "rhs_value"}, {}, {"LIMITS_MAP": limits})
    out += ["(* maps.qasm_variable_type_cast *)",
            "Definition type_cast_gen (k : vkind) (base_size rhs_value : pyval) : res pyval :=",
            stmts(f.body, ctx, 1) + ".", ""]
    # validator.validate_variable_assignment_value(variable, value)
    g = find_func(vt, "validate_variable_assignment_value")
    params = [a.arg for a in g.args.args]
    if params != ["variable", "value"] or g.args.vararg or g.args.kwarg or g.args.kwonlyargs or g.args.defaults:
        raise Untranslatable("signature of validate_variable_assignment_value")
    ctx = Ctx([], {}, {"value": "value"}, {"variable.base_size": "base_size"}, {"LIMITS_MAP": limits})
    out += ["(* validator.Qasm3Validator.validate_variable_assignment_value *)",
            "Definition cast_value_gen (k : vkind) (size : option Z) (value : pyval) : res pyval :=",
            "  let base_size := size_val size in",
            stmts(g.body, ctx, 1) + ".", ""]
    return "\n".join(out)


def main():
    maps_py, validator_py, dst = sys.argv[1:4]
    try:
        text = translate(open(maps_py).read(), open(validator_py).read())
    except (Untranslatable, SyntaxError) as e:
        open(dst, "w").write("(* cast2coq.py could not translate the source: %s *)\nUntranslatable source.\n" % str(e).replace("*)", "* )"))
        sys.stderr.write("cast2coq: %s\n" % e)
        sys.exit(2)
    open(dst, "w").write(text)


if __name__ == "__main__":
    main()
