"""C01: unrolling preserves the meaning of every accepted program."""
import multiprocessing
import random
import re

import flatsim
import gen
import langcheck

PROP = "C01"


def cases(tier, seed):
    rnd = random.Random(seed)
    out = []
    n = 350 if tier == "quick" else 6000
    # every inlining mechanism, each used more than once per program
    prof = dict(gates=6, mods=3, measure=2, reset=1, barrier=1, if_ct=2, if_meas=2, for_=3, switch=2, alias=2, assign=2, decl=2,
                call=3, custom=3, phase=1, depth=3)
    for _ in range(n):
        g = gen.G(rnd, prof)
        out.append(dict(src=g.program(nstmts=rnd.randint(4, 10))[0], family="random-full"))
    for s in gen.repeated_call_cases():
        out.append(dict(src=s, family="repeated-calls"))
    for s in gen.scope_cases()[:: (2 if tier == "quick" else 1)]:
        out.append(dict(src=s, family="scope-shapes"))
    for s in gen.subroutine_arg_cases(3)[:: (2 if tier == "quick" else 1)]:
        out.append(dict(src=s, family="subroutine-argument-shapes"))
    for s in gen.modifier_cases(rnd)[:: (8 if tier == "quick" else 1)]:
        out.append(dict(src=s, family="modifiers"))
    for s in gen.repo_test_programs():
        out.append(dict(src=s, family="programs-of-the-repository-test-suite"))
    for s in gen.folded_value_cases()[:: (2 if tier == "quick" else 1)]:
        out.append(dict(src=s, family="values-through-initialisers-booleans-and-array-elements"))
    return out


def classify(run, i, model):
    o = run.outcomes[i]
    v = run.verdicts[i]
    if model is None or model[0] == "unparsed":
        return None
    if o.get("unroll") == "ok" and model[0] == "ok" and o.get("ops") is not None and o["ops"] != model[1]:
        try:
            eq, why = flatsim.process_equal(o["ops"], model[1])
        except Exception:
            return None
        if not eq:
            return ("process", {"kind": "program", "what": "the unrolled program does not denote the process of the modelled expansion: " + why})
    return None


LIBCALL = re.compile(r"(?m)(?:^|[;{}\s])(?:(?:inv|pow\(-?\d+\)) @ )*([A-Za-z_][A-Za-z_0-9]*)(?=\s*\(|\s+[A-Za-z_])")


def _kept_worker(src):
    """independent of the model: the fully unrolled program must denote the same process as the program
    unrolled with every library gate kept opaque, the kept calls read as their defining unitaries
    (spec/gates_spec.py) -- lowering and inversion of library gates composed through the whole program"""
    import logging
    logging.disable(logging.CRITICAL)
    import pyqasm
    names = sorted(set(n for n in LIBCALL.findall(src) if n in gen.LIB and n not in ("xx_plus_yy", "xy", "ms")))
    if not names or any(n in src for n in ("xx_plus_yy", "xy(", "ms(")):
        return ("skip",)
    try:
        m = pyqasm.loads(src)
        m.unroll()
        full = flatsim.from_ast(m.unrolled_ast.statements, strict=False)
    except Exception:
        return ("rejected",)
    try:
        k = pyqasm.loads(src)
        k.unroll(external_gates=names)
        kept = flatsim.from_ast(k.unrolled_ast.statements, strict=False)
    except Exception as e:
        return ("kept-rejected", "%s: %s" % (type(e).__name__, str(e)[:120]))
    def max_angle(ops):
        m = 0.0
        for o in ops:
            if o[0] == "gate":
                m = max([m] + [abs(float(a)) for a in o[2]])
            elif o[0] == "gphase":
                m = max(m, abs(float(o[1])))
            elif o[0] == "if":
                m = max(m, max_angle(o[2]), max_angle(o[3]))
        return m
    # binary64 angles: the rounding error of sin/cos arguments grows with the magnitude of the angle
    tol = 1e-8 * max(1.0, max_angle(full), max_angle(kept))
    try:
        eq, why = flatsim.process_equal(full, kept, tol=tol)
    except flatsim.TooBig:
        return ("too-big",)
    except Exception as e:
        return ("sim-error", "%s: %s" % (type(e).__name__, str(e)[:120]))
    return ("ok",) if eq else ("differs", why, names)


def direct(run, chk):
    srcs = [c["src"] for c in run.cases]
    with multiprocessing.Pool(12) as pool:
        res = pool.map(_kept_worker, srcs, chunksize=10)
    tally = {}
    nbad = 0
    for src, r in zip(srcs, res):
        tally[r[0]] = tally.get(r[0], 0) + 1
        if r[0] == "differs" and nbad < 5:
            nbad += 1
            chk.violation("meaning_%d" % nbad, {"kind": "program", "source": src, "kept_gates": r[2],
                                                "what": "the unrolled program and the program with its library gates kept opaque (read as their defining unitaries) denote different processes: " + r[1]})
        if r[0] == "kept-rejected" and nbad < 5:
            nbad += 1
            chk.violation("kept_rejected_%d" % nbad, {"kind": "program", "source": src, "what": "accepted by unroll() but rejected with the library gates kept external: " + r[1]})
    direct.tally = tally
    # the whole-program theorem (Lang/BroadcastProofs.v) on every case it applies to, the repository's own test programs included
    direct.expansion = langcheck.expansion_oracle(run, chk)


def run(tier, seed, replay):
    if replay:
        return langcheck.replay_cmd(PROP, replay)
    direct.tally = {}
    return langcheck.standard(PROP, tier, seed, cases(tier, seed), classify, direct=direct,
                              extra_cov=lambda run: {"process_oracle_full_vs_kept_library_gates": direct.tally,
                                                     "whole_program_theorem_judgement_on_real_programs": getattr(direct, "expansion", {})},
                              trusted=["harness/flatsim.py, harness/gatenum.py (branching state-vector simulator: search oracle)", "spec/gates_spec.py"])
