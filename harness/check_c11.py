"""C11: remove_idle_qubits drops exactly the unused qubits and renumbers the rest."""
import modcheck
import modcorr

PROP = "C11"
PREFIXES = [[], ["validate"], ["unroll"], ["depth"], ["has_measurements", "num_qubits"], ["unroll", "validate"]]


def make_cases(rnd, tier, progs):
    n = 500 if tier == "quick" else 8000
    # many registers, few gates: plenty of idle qubits in every position
    ps = progs(120 if tier == "quick" else 600, dict(gates=3, measure=2, reset=2, barrier=2, if_meas=3, for_=2, custom=2))
    out = []
    for k in range(n):
        src = ps[k % len(ps)]
        body = [(0, q) for q in rnd.choice(PREFIXES)]
        if rnd.random() < 0.45:
            # other transformations first (on a module that may never have been unrolled): the transformation under
            # test starts from whatever program and bookkeeping they leave
            pre = [t for t in modcorr.TRANSFORMS]
            body += [(0, rnd.choice(pre), True) for _ in range(rnd.randint(1, 2))]
            if rnd.random() < 0.3:
                body.append((0, rnd.choice(["unroll", "validate", "depth"])))
        nmod = 1
        inpl = rnd.random() < 0.7
        body.append((0, "remove_idle_qubits", inpl))
        tgt = 0
        if not inpl:
            nmod, tgt = 2, 1
        r = rnd.random()
        if r < 0.3:
            body.append((tgt, "remove_idle_qubits", True))       # idempotent
        elif r < 0.45:
            body.append((tgt, "unroll"))
        elif r < 0.55:
            body.append((tgt, "validate"))
        hist, nobs = modcheck.hist_with_obs(rnd, body, nmod)
        out.append(dict(src=src, hist=hist, nobs=nobs, family="remove-idle"))
    # a removal that makes further qubits idle, between two remove_idle_qubits (every structured program)
    for src in modcheck.FIXED_PROGRAMS:
        for mid in ("remove_barriers", "remove_measurements", "reverse_qubit_order", "populate_idle_qubits"):
            for first_in_place in (True, False):
                body = [(0, "remove_idle_qubits", first_in_place)]
                tgt = 0 if first_in_place else 1
                body += [(tgt, mid, True), (tgt, "remove_idle_qubits", True)]
                hist, nobs = modcheck.hist_with_obs(rnd, body, 1 if first_in_place else 2)
                out.append(dict(src=src, hist=hist, nobs=nobs, family="remove-idle-again-after-a-removal"))
    out += modcheck.chains(rnd, "removal-chains-on-renumbered-registers", lasts=("remove_idle_qubits", ("remove_idle_qubits", "unroll")),
                           firsts=("remove_idle_qubits", "reverse_qubit_order"))
    return out


def run(tier, seed, replay):
    if replay:
        return modcheck.replay_cmd(PROP, replay)
    return modcheck.run(PROP, tier, seed, make_cases, failed_call_after=("remove_idle_qubits",))
