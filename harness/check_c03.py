"""C03: unrolled output is flat, self-contained, re-loadable and a fixpoint of unroll."""
import multiprocessing
import random

import common
import flatsim
import gen
import ir
import langcheck

PROP = "C03"


def cases(tier, seed):
    rnd = random.Random(seed)
    out = []
    n = 300 if tier == "quick" else 5000
    for _ in range(n):
        out.append(dict(src=gen.random_program(rnd)[0], family="random-full"))
    for s in gen.gate_sweep(rnd, 1 if tier == "quick" else 3):
        out.append(dict(src=s, family="every-library-gate"))
    for s in gen.expr_cases(rnd, 60 if tier == "quick" else 600)[-(60 if tier == "quick" else 600):]:
        out.append(dict(src=s, family="expressions-as-parameters"))
    for s in gen.cast_use_cases():
        out.append(dict(src=s, family="converted-values-as-indices-and-parameters"))
    for s in gen.repo_test_programs():
        out.append(dict(src=s, family="programs-of-the-repository-test-suite"))
    for s in gen.folded_value_cases():
        out.append(dict(src=s, family="values-through-initialisers-booleans-and-array-elements"))
    for s in gen.nonfinite_param_cases():
        out.append(dict(src=s, family="parameters-folded-to-a-non-finite-double"))
    # the outputs of the other checks' enumerated families must be well-formed flat programs as well
    step = 3 if tier == "quick" else 1
    for fam, progs in (("scope-shapes", gen.scope_cases()), ("repeated-calls", gen.repeated_call_cases()), ("subroutine-argument-shapes", gen.subroutine_arg_cases(3)),
                       ("modifiers", gen.modifier_cases(rnd)), ("loop-ranges", gen.loop_range_cases()), ("loop-dependent-slices", gen.loop_slice_cases()),
                       ("subroutine-body-blocks", gen.sub_body_block_cases()), ("broadcast", gen.broadcast_cases())):
        for s in progs[::step]:
            out.append(dict(src=s, family=fam))
    # programs with a checked error: they are rejected; whatever unroll() accepts nevertheless must still be flat,
    # re-loadable and a fixpoint (the clauses hold of every output, not only of the outputs of valid programs)
    for cls, ctx, src in gen.error_cases():
        if ctx in ("top", "for-first") or (tier != "quick" and ctx in ("if-true", "sub-body", "switch-case")):
            out.append(dict(src=src, family="rejected-programs"))
    return out


def classify(run, i, model):
    o = run.outcomes[i]
    if o.get("unroll") == "ok" and o.get("flat_error"):
        return ("notflat", {"kind": "program", "what": "unrolled output is not flat: %s" % o["flat_error"]})
    return None


def _reload_worker(src):
    """(tag, detail) for the re-load / fixpoint clauses on the real code"""
    import logging
    logging.disable(logging.CRITICAL)
    import openqasm3.ast as qa
    import pyqasm
    try:
        m = pyqasm.loads(src)
        m.unroll()
    except Exception:
        return ("rejected", None)
    stmts = m.unrolled_ast.statements

    def known_shape(ss):
        names = [x.identifier.name for x in ss if isinstance(x, qa.ClassicalDeclaration)]
        if len(names) != len(set(names)):
            return "C03-register-declared-in-a-loop-body-is-emitted-once-per-iteration"
        for x in ss:
            if isinstance(x, (qa.QuantumGate, qa.QuantumPhase)):
                args = x.arguments if isinstance(x, qa.QuantumGate) else [x.argument]
                if any(isinstance(a, qa.FloatLiteral) and (a.value != a.value or a.value in (float("inf"), float("-inf"))) for a in args):
                    return "C03-non-finite-gate-parameter"
            if isinstance(x, qa.QuantumPhase) and x.qubits:
                return "C03-gphase-with-qubit-operands"
            if isinstance(x, qa.BranchingStatement):
                if not x.if_block:
                    return "C03-empty-if-block"
                k = known_shape(x.if_block) or known_shape(x.else_block)
                if k:
                    return k
            if isinstance(x, qa.QuantumGate) and x.name.name == "sxdg" and ("xx_plus_yy" in src or "xy(" in src):
                return "C03-xx_plus_yy-emits-sxdg"      # only when the source calls xx_plus_yy / xy
        return None
    known = known_shape(stmts)
    try:
        flatsim.from_ast(stmts, strict=True)
        flat_err = None
    except flatsim.NotFlat as e:
        flat_err = str(e)
    text = pyqasm.dumps(m)
    try:
        # a validation of the already unrolled module leaves its unrolled program as it is
        m.validate()
        if pyqasm.dumps(m) != text:
            return ("validate-changes-unrolled", "validate() after unroll() changed what the module prints", None, text)
    except Exception as e:
        return ("validate-after-unroll-fails", "%s: %s" % (type(e).__name__, str(e)[:150]), None, text)
    try:
        a = ir.clist([ir.stmt(s) for s in stmts])
    except ir.Unconvertible as e:
        return ("unconvertible", str(e))
    try:
        r = pyqasm.loads(text)
    except Exception as e:
        return ("reload-fails", "%s: %s" % (type(e).__name__, str(e)[:150]), known, text)
    try:
        b = ir.clist([ir.stmt(s) for s in r.original_program.statements])
    except ir.Unconvertible as e:
        return ("unconvertible", str(e))
    def ops_of(ss):
        try:
            return flatsim.from_ast(ss, strict=False)
        except flatsim.NotFlat as e:
            return ("not-flat", str(e), id(ss))      # never equal to another program's ops
    if flat_err and ops_of(stmts)[:1] == ("not-flat",):
        return ("not-flat", flat_err, known, text)
    if ops_of(r.original_program.statements) != ops_of(stmts):
        return ("parses-differently", "the printed text parses to a different program", known, text)
    try:
        r.validate()
    except Exception as e:
        return ("revalidate-fails", "%s: %s" % (type(e).__name__, str(e)[:150]), known, text)
    try:
        r2 = pyqasm.loads(text)
        r2.unroll()
        text2 = pyqasm.dumps(r2)
    except Exception as e:
        return ("reunroll-fails", "%s: %s" % (type(e).__name__, str(e)[:150]), known, text)
    if ops_of(r2.unrolled_ast.statements) != ops_of(stmts):
        return ("not-a-fixpoint", "unrolling the unrolled program changes it", known, text)
    if text2 != text:
        return ("not-a-fixpoint-text", "unrolling the unrolled program changes its text", known, text)
    if flat_err:
        return ("not-flat", flat_err, known, text)
    return ("ok", None)


def direct(run, chk):
    known = {e["id"]: e for e in common.load_known(PROP)}
    srcs = [c["src"] for c in run.cases]
    with multiprocessing.Pool(12) as pool:
        res = pool.map(_reload_worker, srcs, chunksize=10)
    tally = {}
    nbad = 0
    reported_known = set()
    for src, r in zip(srcs, res):
        tally[r[0]] = tally.get(r[0], 0) + 1
        if r[0] in ("ok", "rejected", "unconvertible"):
            continue
        kid = r[2]
        if kid and kid in known and known[kid]["status"] == "known":
            tally["known:" + kid] = tally.get("known:" + kid, 0) + 1
            if kid not in reported_known:
                reported_known.add(kid)
                chk.known("%s: %s" % (kid, known[kid]["what"][:100]))
            continue
        nbad += 1
        if nbad <= 5:
            chk.violation("%s_%d" % (r[0].replace("-", "_"), nbad), {"kind": "program", "source": src, "what": r[0] + ": " + str(r[1]), "unrolled_text": r[3]})
    direct.tally = tally
    # the hypothesis of the fixpoint theorem (Props/C03.v C03_wellformed_flat_program_is_accepted_and_a_fixpoint), evaluated
    # on the real outputs: a well-formed output that does not load again or is changed by a second unroll is a failure
    # of the property shown twice (by the run above and by the theorem through the model)
    idx = [i for i, (o, r) in enumerate(zip(run.outcomes, res)) if o.get("unroll") == "ok" and o.get("stmts_term") and r[0] not in ("rejected", "unconvertible")]
    idx = idx[: (900 if chk.tier == "quick" else 6000)]
    wf = wellformed([run.outcomes[i]["stmts_term"] for i in idx])
    wft = {"well-formed": 0, "not-well-formed": 0, "not-evaluated": 0, "not-well-formed-by-known-shape": {}}
    for i, w in zip(idx, wf):
        if w is None:
            wft["not-evaluated"] += 1
        elif w:
            wft["well-formed"] += 1
            kid = res[i][2] if len(res[i]) > 2 else None
            if kid and kid in known and known[kid]["status"] == "known":
                # e.g. a parameter folded to inf: well formed as a syntax tree, but no text denotes it (listed finding, reported above)
                wft["well-formed-but-known-shape"] = wft.get("well-formed-but-known-shape", 0) + 1
            elif res[i][0] != "ok" and nbad < 8:
                nbad += 1
                chk.violation("wellformed_output_%s_%d" % (res[i][0].replace("-", "_"), nbad),
                              {"kind": "program", "source": srcs[i], "what": "the unrolled output is a well-formed flat program (the model accepts it and unrolls it to itself, Props/C03.v) but the implementation: %s: %s" % (res[i][0], res[i][1]),
                               "unrolled_text": res[i][3] if len(res[i]) > 3 else None})
        else:
            wft["not-well-formed"] += 1
            k = res[i][2] if len(res[i]) > 2 and res[i][2] else ("reloads-fine" if res[i][0] == "ok" else res[i][0])
            wft["not-well-formed-by-known-shape"][k] = wft["not-well-formed-by-known-shape"].get(k, 0) + 1
            if k == "reloads-fine" and len(wft.setdefault("examples-not-well-formed-but-fine", [])) < 3:
                wft["examples-not-well-formed-but-fine"].append(srcs[i])
    direct.wf = wft


def wellformed(terms):
    """wf_flat env0 (coq/Lang/FixProofs.v) evaluated by coqc on real unrolled outputs (Gallina terms): list of bool | None"""
    import os
    import re
    import subprocess
    import langcorr
    d = common.run_dir()
    res = [None] * len(terms)
    shard = 150
    procs = []
    for k in range(0, len(terms), shard):
        f = os.path.join(d, "wf_%d.v" % (k // shard))
        with open(f, "w") as fh:
            fh.write(langcorr.HEADER.replace("Unroll Corr", "Unroll FixProofs"))
            fh.write("Eval vm_compute in (map (wf_flat env0)\n [%s]).\n" % ";\n  ".join(terms[k:k + shard]))
        procs.append((k, subprocess.Popen(["timeout", "600", "coqc", "-Q", common.COQ, "Verif", f], stdout=subprocess.PIPE, stderr=subprocess.PIPE, text=True)))
    for k, p in procs:
        so, se = p.communicate()
        if p.returncode != 0:
            continue
        vals = re.findall(r"\b(true|false)\b", so.split("= [", 1)[-1].split("]")[0]) if "= [" in so else []
        if len(vals) == len(terms[k:k + shard]):
            for j, v in enumerate(vals):
                res[k + j] = (v == "true")
    return res


def run(tier, seed, replay):
    if replay:
        return langcheck.replay_cmd(PROP, replay)
    direct.tally = {}
    return langcheck.standard(PROP, tier, seed, cases(tier, seed), classify, direct=direct,
                              extra_cov=lambda run: {"reload_fixpoint_clauses_on_real_output": direct.tally,
                                                     "fixpoint_theorem_hypothesis_on_real_output": getattr(direct, "wf", {})})
