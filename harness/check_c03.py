"""C03: unrolled output is flat, self-contained, re-loadable and a fixpoint of unroll."""
import multiprocessing
import random

import common
import flatsim
import gen
import ir
import langcheck

PROP = "C03"


def cases(tier, seed):
    rnd = random.Random(seed)
    out = []
    n = 300 if tier == "quick" else 5000
    for _ in range(n):
        out.append(dict(src=gen.random_program(rnd)[0], family="random-full"))
    for s in gen.gate_sweep(rnd, 1 if tier == "quick" else 3):
        out.append(dict(src=s, family="every-library-gate"))
    for s in gen.expr_cases(rnd, 60 if tier == "quick" else 600)[-(60 if tier == "quick" else 600):]:
        out.append(dict(src=s, family="expressions-as-parameters"))
    for s in gen.cast_use_cases():
        out.append(dict(src=s, family="converted-values-as-indices-and-parameters"))
    for s in gen.folded_value_cases():
        out.append(dict(src=s, family="values-through-initialisers-booleans-and-array-elements"))
    # programs with a checked error: they are rejected; whatever unroll() accepts nevertheless must still be flat,
    # re-loadable and a fixpoint (the clauses hold of every output, not only of the outputs of valid programs)
    for cls, ctx, src in gen.error_cases():
        if ctx in ("top", "for-first") or (tier != "quick" and ctx in ("if-true", "sub-body", "switch-case")):
            out.append(dict(src=src, family="rejected-programs"))
    return out


def classify(run, i, model):
    o = run.outcomes[i]
    if o.get("unroll") == "ok" and o.get("flat_error"):
        return ("notflat", {"kind": "program", "what": "unrolled output is not flat: %s" % o["flat_error"]})
    return None


def _reload_worker(src):
    """(tag, detail) for the re-load / fixpoint clauses on the real code"""
    import logging
    logging.disable(logging.CRITICAL)
    import openqasm3.ast as qa
    import pyqasm
    try:
        m = pyqasm.loads(src)
        m.unroll()
    except Exception:
        return ("rejected", None)
    stmts = m.unrolled_ast.statements

    def known_shape(ss):
        names = [x.identifier.name for x in ss if isinstance(x, qa.ClassicalDeclaration)]
        if len(names) != len(set(names)):
            return "C03-register-declared-in-a-loop-body-is-emitted-once-per-iteration"
        for x in ss:
            if isinstance(x, qa.QuantumPhase) and x.qubits:
                return "C03-gphase-with-qubit-operands"
            if isinstance(x, qa.BranchingStatement):
                if not x.if_block:
                    return "C03-empty-if-block"
                k = known_shape(x.if_block) or known_shape(x.else_block)
                if k:
                    return k
            if isinstance(x, qa.QuantumGate) and x.name.name == "sxdg" and ("xx_plus_yy" in src or "xy(" in src):
                return "C03-xx_plus_yy-emits-sxdg"      # only when the source calls xx_plus_yy / xy
        return None
    known = known_shape(stmts)
    try:
        flatsim.from_ast(stmts, strict=True)
        flat_err = None
    except flatsim.NotFlat as e:
        flat_err = str(e)
    text = pyqasm.dumps(m)
    try:
        # a validation of the already unrolled module leaves its unrolled program as it is
        m.validate()
        if pyqasm.dumps(m) != text:
            return ("validate-changes-unrolled", "validate() after unroll() changed what the module prints", None, text)
    except Exception as e:
        return ("validate-after-unroll-fails", "%s: %s" % (type(e).__name__, str(e)[:150]), None, text)
    try:
        a = ir.clist([ir.stmt(s) for s in stmts])
    except ir.Unconvertible as e:
        return ("unconvertible", str(e))
    try:
        r = pyqasm.loads(text)
    except Exception as e:
        return ("reload-fails", "%s: %s" % (type(e).__name__, str(e)[:150]), known, text)
    try:
        b = ir.clist([ir.stmt(s) for s in r.original_program.statements])
    except ir.Unconvertible as e:
        return ("unconvertible", str(e))
    def ops_of(ss):
        try:
            return flatsim.from_ast(ss, strict=False)
        except flatsim.NotFlat as e:
            return ("not-flat", str(e), id(ss))      # never equal to another program's ops
    if flat_err and ops_of(stmts)[:1] == ("not-flat",):
        return ("not-flat", flat_err, known, text)
    if ops_of(r.original_program.statements) != ops_of(stmts):
        return ("parses-differently", "the printed text parses to a different program", known, text)
    try:
        r.validate()
    except Exception as e:
        return ("revalidate-fails", "%s: %s" % (type(e).__name__, str(e)[:150]), known, text)
    try:
        r2 = pyqasm.loads(text)
        r2.unroll()
        text2 = pyqasm.dumps(r2)
    except Exception as e:
        return ("reunroll-fails", "%s: %s" % (type(e).__name__, str(e)[:150]), known, text)
    if ops_of(r2.unrolled_ast.statements) != ops_of(stmts):
        return ("not-a-fixpoint", "unrolling the unrolled program changes it", known, text)
    if text2 != text:
        return ("not-a-fixpoint-text", "unrolling the unrolled program changes its text", known, text)
    if flat_err:
        return ("not-flat", flat_err, known, text)
    return ("ok", None)


def direct(run, chk):
    known = {e["id"]: e for e in common.load_known(PROP)}
    srcs = [c["src"] for c in run.cases]
    with multiprocessing.Pool(12) as pool:
        res = pool.map(_reload_worker, srcs, chunksize=10)
    tally = {}
    nbad = 0
    reported_known = set()
    for src, r in zip(srcs, res):
        tally[r[0]] = tally.get(r[0], 0) + 1
        if r[0] in ("ok", "rejected", "unconvertible"):
            continue
        kid = r[2]
        if kid and kid in known and known[kid]["status"] == "known":
            tally["known:" + kid] = tally.get("known:" + kid, 0) + 1
            if kid not in reported_known:
                reported_known.add(kid)
                chk.known("%s: %s" % (kid, known[kid]["what"][:100]))
            continue
        nbad += 1
        if nbad <= 5:
            chk.violation("%s_%d" % (r[0].replace("-", "_"), nbad), {"kind": "program", "source": src, "what": r[0] + ": " + str(r[1]), "unrolled_text": r[3]})
    direct.tally = tally


def run(tier, seed, replay):
    if replay:
        return langcheck.replay_cmd(PROP, replay)
    direct.tally = {}
    return langcheck.standard(PROP, tier, seed, cases(tier, seed), classify, direct=direct,
                              extra_cov=lambda run: {"reload_fixpoint_clauses_on_real_output": direct.tally})
