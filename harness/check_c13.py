"""C13: populate_idle_qubits adds one identity gate to each idle qubit and nothing else."""
import modcheck
import modcorr

PROP = "C13"
PREFIXES = [[], ["validate"], ["unroll"], ["depth"], ["validate", "unroll"], ["num_qubits", "has_barriers"]]


def make_cases(rnd, tier, progs):
    n = 500 if tier == "quick" else 8000
    # qubits used only in later loop iterations / inside subroutines / conditionals
    ps = progs(120 if tier == "quick" else 600, dict(gates=3, measure=2, reset=2, barrier=2, if_meas=2, for_=5, call=3, custom=2))
    out = []
    for k in range(n):
        src = ps[k % len(ps)]
        body = [(0, q) for q in rnd.choice(PREFIXES)]
        nmod = 1
        if rnd.random() < 0.4:     # an earlier transformation must stay in effect
            body.append((0, rnd.choice(["remove_measurements", "remove_barriers", "remove_includes", "reverse_qubit_order"]), True))
        inpl = rnd.random() < 0.7
        body.append((0, "populate_idle_qubits", inpl))
        tgt = 0
        if not inpl:
            nmod, tgt = 2, 1
        r = rnd.random()
        if r < 0.4:
            body.append((tgt, "populate_idle_qubits", True))     # adds nothing
        elif r < 0.5:
            body.append((tgt, "unroll"))
        elif r < 0.6:
            body.append((tgt, "remove_idle_qubits", True))       # nothing idle afterwards
        hist, nobs = modcheck.hist_with_obs(rnd, body, nmod)
        out.append(dict(src=src, hist=hist, nobs=nobs, family="populate"))
    out += modcheck.enumerated(rnd, ["populate_idle_qubits"], "populate-on-every-structured-program",
                               before=((), ("unroll",), ("validate",), ("unroll", "validate")),
                               after=((), ("populate_idle_qubits",), ("unroll",), ("remove_idle_qubits",)))
    # qubits that BECOME idle after the registers were renumbered (remove_idle_qubits, then a removal) are populated too
    out += modcheck.chains(rnd, "populate-after-removal-chains", lasts=("populate_idle_qubits", ("populate_idle_qubits", "unroll")))
    return out


def run(tier, seed, replay):
    if replay:
        return modcheck.replay_cmd(PROP, replay)
    return modcheck.run(PROP, tier, seed, make_cases, failed_call_after=("populate_idle_qubits",))
