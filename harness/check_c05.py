"""C05: every library gate expands to a circuit implementing its defining unitary."""
import json
import math
import os
import random
import re
import subprocess

import common
from common import Check, ROOT, COQ

PROP = "C05"


def gate_names_from_report():
    rep = json.load(open(common.MAPS_REPORT))
    names = []
    for t, _ in rep["op_maps"]:
        names += rep["tables"][t]
    return names, rep


def param_vectors(np_, tier, rnd):
    if np_ == 0:
        return [[]]
    structured = [[0.0] * np_, [math.pi / 2] * np_, [math.pi] * np_,
                  [0.3 + 0.41 * i for i in range(np_)], [-(1.1 + 0.7 * i) for i in range(np_)]]
    # angles beyond one and two turns: half-angle gates are only 4*pi periodic
    structured += [[7.0 + 0.9 * i for i in range(np_)], [-(9.5 + 1.3 * i) for i in range(np_)],
                   [13.0 + 2.1 * i for i in range(np_)]]
    n = 4 if tier == "quick" else 120
    return structured + [[rnd.uniform(-5 * math.pi, 5 * math.pi) for _ in range(np_)] for _ in range(n)]


def numeric_sweep(names, tier, seed, only=None):
    """runs real pyqasm; returns (evaluations, failures[(name, params, src, detail)], unspecified)"""
    import gatenum
    gs = gatenum.gates_spec
    rnd = random.Random(seed)
    fails, evals, unspecified, samples = [], 0, [], []
    for n in names:
        if only is not None and n not in only:
            continue
        if n in gs.SPECS:
            np_ = gs.SPECS[n][0]
        elif n in gs.NUMERIC_ONLY:
            np_ = 3
        else:
            unspecified.append(n)
            continue
        for vals in param_vectors(np_, tier, rnd):
            ok, src, det = gatenum.check_gate_numeric(n, vals)
            evals += 1
            if len(samples) < 5 and np_ > 0:
                samples.append({"gate": n, "params": vals, "ok": ok})
            if not ok:
                fails.append((n, vals, src, det))
                break
        else:
            # the same gate on two groups of operands in one statement
            vals = param_vectors(np_, "quick", rnd)[3 if np_ else 0]
            ok, src, det = gatenum.check_gate_broadcast(n, vals)
            evals += 1
            if not ok:
                fails.append((n, vals, src, det))
    return evals, fails, unspecified, samples


def failing_model_gates():
    """which names does the Coq decision procedure reject (diagnostic when the proof breaks)"""
    d = common.run_dir()
    f = os.path.join(d, "diag.v")
    open(f, "w").write(
        "From Coq Require Import String List Bool.\n"
        "From Verif Require Import BGate GateLib KnownBad.\n"
        "Eval vm_compute in filter (fun n => has_spec n && negb (smem n c05_known_bad) && negb (check_gate n)) all_gate_names.\n")
    p = subprocess.run(["timeout", "600", "coqc", "-Q", COQ, "Verif", f], capture_output=True, text=True)
    if p.returncode != 0:
        return None
    return re.findall(r'"([^"]+)"', p.stdout.split(":")[0])


def run(tier, seed, replay):
    import gatenum
    chk = Check(PROP, tier, seed)
    known = common.load_known(PROP)
    known_names = {}
    for e in known:
        if e["status"] == "known":
            for n in e["replay"]["names"]:
                known_names[n] = e

    if replay:
        r = json.load(open(replay))
        if str(r.get("detail", "")).startswith("one statement"):
            ok, src, det = gatenum.check_gate_broadcast(r["gate"], r["params"])
        else:
            ok, src, det = gatenum.check_gate_numeric(r["gate"], r["params"])
        print("replay %s%r: %s %s" % (r["gate"], r["params"], "property holds" if ok else "PROPERTY FAILS", det))
        if not ok:
            chk.violation("replayed", r)
        return chk.finish()

    res = common.build(["Props/C05.vo"], fresh=["Props/C05.v"])
    closed, axioms = common.parse_assumptions(res.log)
    bad_axioms = common.axioms_ok(axioms)
    hyg = common.hygiene()
    checked = []
    m = re.search(r'"c05_checked_names_are",\s*(\[.*?\])\)', res.log, re.S)
    if m:
        checked = re.findall(r'"([^"]+)"', m.group(1))
    names, rep = gate_names_from_report() if not res.translator_error else ([], {})
    if not names:  # translator broke: take the names from the real tables
        import pyqasm.maps as pm
        for t in ("ONE_QUBIT_OP_MAP", "ONE_QUBIT_ROTATION_MAP", "TWO_QUBIT_OP_MAP", "THREE_QUBIT_OP_MAP",
                  "FOUR_QUBIT_OP_MAP", "FIVE_QUBIT_OP_MAP"):
            names += list(getattr(pm, t, {}).keys())

    # the translator's view of the tables must be the runtime's view (a table filled by a loop or
    # patched after its literal would otherwise escape both the theorem and the sweep)
    import pyqasm.maps as pm
    runtime = []
    for t in ("ONE_QUBIT_OP_MAP", "ONE_QUBIT_ROTATION_MAP", "TWO_QUBIT_OP_MAP", "THREE_QUBIT_OP_MAP",
              "FOUR_QUBIT_OP_MAP", "FIVE_QUBIT_OP_MAP"):
        runtime += list(getattr(pm, t, {}).keys())
    table_drift = sorted(set(runtime) ^ set(names))
    names = names + [n for n in runtime if n not in names]
    evals, fails, unspecified, samples = numeric_sweep(names, tier, seed)
    new_fail = [f for f in fails if f[0] not in known_names]
    for n, vals, src, det in new_fail:
        chk.violation("gate_%s" % re.sub(r"\W", "_", n),
                      {"kind": "gate", "gate": n, "params": vals, "source": src, "detail": det,
                       "what": "emitted circuit is not the defining unitary up to a global phase"})
    # known findings: replay each
    for e in known:
        still = False
        for n in e["replay"]["names"]:
            ok, _, _ = gatenum.check_gate_numeric(n, e["replay"]["params"][n])
            still = still or not ok
        if e["status"] == "known" and still:
            chk.known("%s: %s" % (e["id"], e["what"][:110]))
        if e["status"] == "fixed" and still:
            chk.violation("regressed_%s" % e["id"], {"kind": "gate", "finding": e})

    proof_ok = res.ok and not bad_axioms and not hyg and not table_drift
    if not proof_ok and not new_fail:
        # widen the search around what the model rejects before giving up
        culprits = failing_model_gates() if res.ok is False and not res.translator_error else None
        wide = []
        if culprits:
            _, wide, _, _ = numeric_sweep(names, "thorough", seed + 1, only=set(culprits))
            wide = [f for f in wide if f[0] not in known_names]
        if wide:
            for n, vals, src, det in wide:
                chk.violation("gate_%s" % re.sub(r"\W", "_", n),
                              {"kind": "gate", "gate": n, "params": vals, "source": src, "detail": det})
        else:
            chk.violation("proof_broken",
                          {"kind": "proof", "broken": res.failed_target or res.translator_error or
                           ("translated tables differ from runtime tables on %s" % table_drift if table_drift else None) or
                           ("axioms %s" % bad_axioms if bad_axioms else "hygiene %s" % hyg),
                           "model_rejects": culprits, "theorem": "Props/C05.v C05_partial / c05_all_checked",
                           "log_tail": res.log[-1500:]}, no_input=True)

    nobl = len(checked) + 3   # per-gate obligations + check_gate_sound, interpS_sound, applyk_hom chain
    chk.coverage = {
        "checker_cmd": "make -C coq Props/C05.vo (coqc 8.16.1, vm_compute reflection; GatesGen.v regenerated from /repo/src/pyqasm/maps.py)",
        "trusted_base": ["Coq 8.16.1 kernel + vm_compute", "translator/maps2coq.py", "spec/gates_spec.py (defining unitaries)",
                         "coq/Gates/Basis.v (basis-gate matrices)", "Reals axioms: " + ", ".join(sorted(axioms))],
        "gates_proved_for_all_real_parameters": checked,
        "opaque_to_translator": rep.get("opaque", {}),
        "unspecified": unspecified,
        "evaluations": evals,
        "distinct_nontrivial": evals - sum(1 for n in names if n in gatenum.gates_spec.SPECS and gatenum.gates_spec.SPECS[n][0] == 0),
        "rule": "numeric oracle on real pyqasm output: every table name x structured + seeded random parameter vectors; non-trivial = gate has at least one parameter",
        "samples": samples,
        "print_assumptions_closed": closed,
        "source_fingerprint": common.src_fingerprint(),
    }
    if proof_ok:
        chk.coverage["obligations"] = nobl
        chk.coverage["discharged"] = nobl
    else:
        chk.coverage["proof_broken"] = True
    chk.assumptions = ["binary64 angles idealised as reals", "openqasm3 parser"]
    return chk.finish()
