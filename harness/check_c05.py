"""C05: every library gate expands to a circuit implementing its defining unitary."""
import json
import math
import os
import random
import re
import subprocess

import common
from common import Check, ROOT, COQ

PROP = "C05"


def gate_names_from_report():
    rep = json.load(open(common.MAPS_REPORT))
    names = []
    for t, _ in rep["op_maps"]:
        names += rep["tables"][t]
    return names, rep


def param_vectors(np_, tier, rnd):
    if np_ == 0:
        return [[]]
    structured = [[0.0] * np_, [math.pi / 2] * np_, [math.pi] * np_,
                  [0.3 + 0.41 * i for i in range(np_)], [-(1.1 + 0.7 * i) for i in range(np_)]]
    # angles beyond one and two turns: half-angle gates are only 4*pi periodic
    structured += [[7.0 + 0.9 * i for i in range(np_)], [-(9.5 + 1.3 * i) for i in range(np_)],
                   [13.0 + 2.1 * i for i in range(np_)]]
    # one parameter at a special value (where a decomposition might take a shortcut), the others generic
    for i in range(np_):
        for special in (0.0, math.pi, -math.pi / 2, 2 * math.pi):
            if np_ > 1:
                structured.append([special if j == i else 0.3 + 0.41 * j for j in range(np_)])
    n = 4 if tier == "quick" else 120
    return structured + [[rnd.uniform(-5 * math.pi, 5 * math.pi) for _ in range(np_)] for _ in range(n)]


def numeric_sweep(names, tier, seed, only=None):
    """runs real pyqasm; returns (evaluations, failures[(name, params, src, detail)], unspecified)"""
    import gatenum
    gs = gatenum.gates_spec
    rnd = random.Random(seed)
    fails, evals, unspecified, samples = [], 0, [], []
    for n in names:
        if only is not None and n not in only:
            continue
        if n in gs.SPECS:
            np_ = gs.SPECS[n][0]
        elif n in gs.NUMERIC_ONLY:
            np_ = 3
        else:
            unspecified.append(n)
            continue
        for vals in param_vectors(np_, tier, rnd):
            ok, src, det = gatenum.check_gate_numeric(n, vals)
            evals += 1
            if len(samples) < 5 and np_ > 0:
                samples.append({"gate": n, "params": vals, "ok": ok})
            if not ok:
                fails.append((n, vals, src, det))
                break
        else:
            # the same gate on two groups of operands in one statement
            vals = param_vectors(np_, "quick", rnd)[3 if np_ else 0]
            ok, src, det = gatenum.check_gate_broadcast(n, vals)
            evals += 1
            if not ok:
                fails.append((n, vals, src, det))
    return evals, fails, unspecified, samples


PARAM_GATES = ["rx", "crz", "u3", "cu", "cp", "rzz", "u2", "cry", "phaseshift"]


def param_source_sweep(names, rnd):
    """the decomposition is applied to the values the parameter expressions denote, whatever supplies them: variables of
    every scalar type, constants, elements of float / int arrays (1-D, 2-D), loop variables, subroutine results,
    built-in constants.  Returns (evaluations, failures[(name, values, source, detail)])."""
    import numpy as np
    import pyqasm
    import gatenum
    gs = gatenum.gates_spec
    fails, evals = [], 0
    for n in PARAM_GATES:
        if n not in names or n not in gs.SPECS:
            continue
        np_, k = gs.SPECS[n][0], gs.SPECS[n][1]
        vals = [round(rnd.uniform(-3, 3), 3) + 0.0371 for _ in range(np_)]
        ivals = [rnd.choice([2, -3, 1, 5, -1]) for _ in range(np_)]
        fl = lambda v: repr(float(v))
        sources = []
        sources.append(("float variables", "".join("float[64] a%d = %s;\n" % (i, fl(v)) for i, v in enumerate(vals)), ["a%d" % i for i in range(np_)], vals))
        sources.append(("const floats", "".join("const float[64] a%d = %s;\n" % (i, fl(v)) for i, v in enumerate(vals)), ["a%d" % i for i in range(np_)], vals))
        sources.append(("float array elements", "array[float[64], %d] arr = {%s};\n" % (np_ + 1, ", ".join(fl(v) for v in vals + [0.5])),
                        ["arr[%d]" % i for i in range(np_)], vals))
        sources.append(("2-D float array elements", "array[float[64], 2, %d] mat = {{%s}, {%s}};\n" % (max(np_, 2), ", ".join(fl(0.25 + i) for i in range(max(np_, 2))),
                                                                                                   ", ".join(fl(v) for v in (vals + [0.5])[:max(np_, 2)])),
                        ["mat[1, %d]" % i for i in range(np_)], vals))
        sources.append(("int variables", "".join("int[8] k%d = %d;\n" % (i, v) for i, v in enumerate(ivals)), ["k%d" % i for i in range(np_)], ivals))
        sources.append(("int array elements", "array[int[8], %d] ia = {%s};\n" % (np_ + 1, ", ".join(str(v) for v in ivals + [7])),
                        ["ia[%d]" % i for i in range(np_)], ivals))
        sources.append(("uint variables", "".join("uint[4] u%d = %d;\n" % (i, abs(v)) for i, v in enumerate(ivals)), ["u%d" % i for i in range(np_)], [abs(v) for v in ivals]))
        sources.append(("bool variable", "bool bt = true;\nbool bf = false;\n", ["bt" if i % 2 == 0 else "bf" for i in range(np_)], [1 if i % 2 == 0 else 0 for i in range(np_)]))
        sources.append(("subroutine results", "def twice(float[64] x) -> float[64] { return x * 2; }\n", ["twice(%s)" % fl(v / 2) for v in vals], vals))
        sources.append(("expressions over variables and pi", "float[64] a = %s;\nint[8] k = 3;\n" % fl(vals[0]),
                        ["a * k - pi / %d" % (i + 2) for i in range(np_)], [vals[0] * 3 - math.pi / (i + 2) for i in range(np_)]))
        qs = ", ".join("q[%d]" % i for i in range(k))
        for what, prelude, ptexts, expect in sources:
            bodies = ["%s(%s) %s;" % (n, ", ".join(ptexts), qs)]
            if what == "float array elements":
                bodies.append("for int j in [0:0] { %s(%s) %s; }" % (n, ", ".join("arr[j + %d]" % i for i in range(np_)), qs))
            for body in bodies:
                src = 'OPENQASM 3.0;\ninclude "stdgates.inc";\nqubit[%d] q;\n%s%s\n' % (k, prelude, body)
                evals += 1
                try:
                    m = pyqasm.loads(src)
                    m.unroll()
                    U = gatenum.circuit_unitary(gatenum.flat_ops_from_module(m, {"q": 0}), k)
                except Exception as e:
                    fails.append((n, expect, src, "parameters from %s: exception %s: %s" % (what, type(e).__name__, str(e)[:200])))
                    continue
                V = np.array(gs.numeric(n, [float(v) for v in expect]))
                if not gatenum.phase_equal(U, V):
                    fails.append((n, expect, src, "parameters from %s: the emitted circuit is not the gate's unitary at the values the expressions denote" % what))
    return evals, fails


def failing_model_gates():
    """which names does the Coq decision procedure reject (diagnostic when the proof breaks)"""
    d = common.run_dir()
    f = os.path.join(d, "diag.v")
    open(f, "w").write(
        "From Coq Require Import String List Bool.\n"
        "From Verif Require Import BGate GateLib KnownBad.\n"
        "Eval vm_compute in filter (fun n => has_spec n && negb (smem n c05_known_bad) && negb (check_gate n)) all_gate_names.\n")
    p = subprocess.run(["timeout", "600", "coqc", "-Q", COQ, "Verif", f], capture_output=True, text=True)
    if p.returncode != 0:
        return None
    return re.findall(r'"([^"]+)"', p.stdout.split(":")[0])


def run(tier, seed, replay):
    import gatenum
    chk = Check(PROP, tier, seed)
    known = common.load_known(PROP)
    known_names = {}
    for e in known:
        if e["status"] == "known":
            for n in e["replay"]["names"]:
                known_names[n] = e

    if replay:
        r = json.load(open(replay))
        if str(r.get("detail", "")).startswith("parameters from"):
            import numpy as np
            import pyqasm
            gs = gatenum.gates_spec
            k = gs.SPECS[r["gate"]][1]
            try:
                m = pyqasm.loads(r["source"])
                m.unroll()
                U = gatenum.circuit_unitary(gatenum.flat_ops_from_module(m, {"q": 0}), k)
                ok, det = gatenum.phase_equal(U, np.array(gs.numeric(r["gate"], [float(v) for v in r["params"]]))), r["detail"]
            except Exception as e:
                ok, det = False, "exception %s" % e
            src = r["source"]
        elif str(r.get("detail", "")).startswith("one statement"):
            ok, src, det = gatenum.check_gate_broadcast(r["gate"], r["params"])
        else:
            ok, src, det = gatenum.check_gate_numeric(r["gate"], r["params"])
        print("replay %s%r: %s %s" % (r["gate"], r["params"], "property holds" if ok else "PROPERTY FAILS", det))
        if not ok:
            chk.violation("replayed", r)
        return chk.finish()

    res = common.build(["Props/C05.vo"], fresh=["Props/C05.v"])
    closed, axioms = common.parse_assumptions(res.log)
    bad_axioms = common.axioms_ok(axioms)
    hyg = common.hygiene()
    checked = []
    m = re.search(r'"c05_checked_names_are",\s*(\[.*?\])\)', res.log, re.S)
    if m:
        checked = re.findall(r'"([^"]+)"', m.group(1))
    names, rep = gate_names_from_report() if not res.translator_error else ([], {})
    if not names:  # translator broke: take the names from the real tables
        import pyqasm.maps as pm
        for t in ("ONE_QUBIT_OP_MAP", "ONE_QUBIT_ROTATION_MAP", "TWO_QUBIT_OP_MAP", "THREE_QUBIT_OP_MAP",
                  "FOUR_QUBIT_OP_MAP", "FIVE_QUBIT_OP_MAP"):
            names += list(getattr(pm, t, {}).keys())

    # the translator's view of the tables must be the runtime's view (a table filled by a loop or
    # patched after its literal would otherwise escape both the theorem and the sweep)
    import pyqasm.maps as pm
    runtime = []
    for t in ("ONE_QUBIT_OP_MAP", "ONE_QUBIT_ROTATION_MAP", "TWO_QUBIT_OP_MAP", "THREE_QUBIT_OP_MAP",
              "FOUR_QUBIT_OP_MAP", "FIVE_QUBIT_OP_MAP"):
        runtime += list(getattr(pm, t, {}).keys())
    table_drift = sorted(set(runtime) ^ set(names))
    names = names + [n for n in runtime if n not in names]
    evals, fails, unspecified, samples = numeric_sweep(names, tier, seed)
    evals2, fails2 = param_source_sweep(names, random.Random(seed + 5))
    evals += evals2
    new_fail = [f for f in fails if f[0] not in known_names] + fails2
    for n, vals, src, det in new_fail:
        chk.violation("gate_%s" % re.sub(r"\W", "_", n),
                      {"kind": "gate", "gate": n, "params": vals, "source": src, "detail": det,
                       "what": "emitted circuit is not the defining unitary up to a global phase"})
    # known findings: replay each
    for e in known:
        still = False
        for n in e["replay"]["names"]:
            ok, _, _ = gatenum.check_gate_numeric(n, e["replay"]["params"][n])
            still = still or not ok
        if e["status"] == "known" and still:
            chk.known("%s: %s" % (e["id"], e["what"][:110]))
        if e["status"] == "fixed" and still:
            chk.violation("regressed_%s" % e["id"], {"kind": "gate", "finding": e})

    proof_ok = res.ok and not bad_axioms and not hyg and not table_drift
    if not proof_ok and not new_fail:
        # widen the search around what the model rejects before giving up
        culprits = failing_model_gates() if res.ok is False and not res.translator_error else None
        wide = []
        if culprits:
            _, wide, _, _ = numeric_sweep(names, "thorough", seed + 1, only=set(culprits))
            wide = [f for f in wide if f[0] not in known_names]
        if wide:
            for n, vals, src, det in wide:
                chk.violation("gate_%s" % re.sub(r"\W", "_", n),
                              {"kind": "gate", "gate": n, "params": vals, "source": src, "detail": det})
        else:
            chk.violation("proof_broken",
                          {"kind": "proof", "broken": res.failed_target or res.translator_error or
                           ("translated tables differ from runtime tables on %s" % table_drift if table_drift else None) or
                           ("axioms %s" % bad_axioms if bad_axioms else "hygiene %s" % hyg),
                           "model_rejects": culprits, "theorem": "Props/C05.v C05_partial / c05_all_checked",
                           "log_tail": res.log[-1500:]}, no_input=True)

    nobl = len(checked) + 3   # per-gate obligations + check_gate_sound, interpS_sound, applyk_hom chain
    chk.coverage = {
        "checker_cmd": "make -C coq Props/C05.vo (coqc 8.16.1, vm_compute reflection; GatesGen.v regenerated from /repo/src/pyqasm/maps.py)",
        "trusted_base": ["Coq 8.16.1 kernel + vm_compute", "translator/maps2coq.py", "spec/gates_spec.py (defining unitaries)",
                         "coq/Gates/Basis.v (basis-gate matrices)", "Reals axioms: " + ", ".join(sorted(axioms))],
        "gates_proved_for_all_real_parameters": checked,
        "opaque_to_translator": rep.get("opaque", {}),
        "unspecified": unspecified,
        "evaluations": evals,
        "distinct_nontrivial": evals - sum(1 for n in names if n in gatenum.gates_spec.SPECS and gatenum.gates_spec.SPECS[n][0] == 0),
        "rule": "numeric oracle on real pyqasm output: every table name x structured + seeded random parameter vectors; non-trivial = gate has at least one parameter",
        "samples": samples,
        "print_assumptions_closed": closed,
        "source_fingerprint": common.src_fingerprint(),
    }
    if proof_ok:
        chk.coverage["obligations"] = nobl
        chk.coverage["discharged"] = nobl
    else:
        chk.coverage["proof_broken"] = True
    chk.assumptions = ["binary64 angles idealised as reals", "openqasm3 parser"]
    return chk.finish()
