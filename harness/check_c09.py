"""C09: depth() is the critical-path length of the inlined circuit, independent of call history."""
import multiprocessing
import random

import common
import gen
import langcheck

PROP = "C09"
QUERY_OPS = ["validate", "unroll", "depth", "num_qubits", "num_clbits", "has_measurements", "has_barriers", "dumps"]


def cases(tier, seed):
    rnd = random.Random(seed)
    out = []
    n = 300 if tier == "quick" else 4000
    profs = [
        ("depth-basis", dict(basis_only=True, gates=8, measure=3, reset=2, barrier=3, mods=0, phase=0, custom=0, call=0,
                             if_ct=0, if_meas=1, for_=2, switch=0, alias=1, assign=0, decl=0)),
        ("depth-library", dict(gates=8, measure=3, reset=2, barrier=3, mods=3, phase=1, custom=3, call=2, if_ct=1, if_meas=2,
                               for_=3, switch=1, alias=1, assign=1, decl=1)),
    ]
    for fam, prof in profs:
        for _ in range(n):
            g = gen.G(rnd, prof)
            out.append(dict(src=g.program(nstmts=rnd.randint(5, 14))[0], family=fam))
    # programs of the whole-program judgement (Lang/GateDefProofs.v): the depth must be the recurrence over the judgement's events
    for src in gen.loop_fragment_cases(random.Random(seed + 91), 120 if tier == "quick" else 2000):
        out.append(dict(src=src, family="judgement-programs"))
    return out


def classify(run, i, model):
    # a depth disagreement between model and implementation is a C09 failure only if the
    # specification oracle (critical path of the reference trace) also disagrees: handled through
    # spec code 15 in langcheck.standard.  Where the reference semantics is silent, the visitor model decides: its depth
    # is the longest chain of the circuit it inlines (Props/C09.v), so a different depth() is a failure of C09
    o = run.outcomes[i]
    if model and model[0] == "ok" and o.get("unroll") == "ok" and o.get("depth") is not None and model[4] != o["depth"]:
        return ("depth", {"kind": "program", "what": "depth() differs from the critical path of the inlined circuit (visitor model, coq/Lang/Unroll.v + Depth/DepthModel.v)",
                          "depth()": o["depth"], "critical_path_of_the_inlined_circuit": model[4]})
    return None


def _history_worker(args):
    import logging
    logging.disable(logging.CRITICAL)
    import pyqasm
    src, ops = args
    try:
        fresh = pyqasm.loads(src).depth()
    except Exception:
        return None
    m = pyqasm.loads(src)
    seen = []
    try:
        for op in ops:
            if op == "dumps":
                pyqasm.dumps(m)
            elif op in ("num_qubits", "num_clbits"):
                getattr(m, op)
            else:
                r = getattr(m, op)()
                if op == "depth":
                    seen.append(r)
        seen.append(m.depth())
    except Exception as e:
        return (src, ops, fresh, "exception %s: %s" % (type(e).__name__, str(e)[:120]))
    if any(d != fresh for d in seen):
        return (src, ops, fresh, seen)
    return ("ok",)


def direct(run, chk):
    # (0) the whole-program theorem: depth counters = the recurrence over the events the judgement computes
    direct.expansion = langcheck.expansion_oracle(run, chk)
    # (a) depth() on a fresh module must be the depth of the visit of a fresh unroll
    bad = 0
    for cs, o in zip(run.cases, run.outcomes):
        if o.get("unroll") == "ok" and "depth_api" in o and o["depth_api"] != o["depth"] and bad < 4:
            chk.violation("api_%d" % bad, {"kind": "program", "source": cs["src"], "what": "depth() differs from the depth counters of unroll() on a fresh module",
                                           "depth()": o["depth_api"], "unroll counters": o["depth"]})
            bad += 1
    # (b) history independence: queries / validate / unroll / depth in any order before depth()
    rnd = random.Random(chk.seed + 17)
    ok_srcs = [cs["src"] for cs, o in zip(run.cases, run.outcomes) if o.get("unroll") == "ok"]
    nh = 400 if chk.tier == "quick" else 6000
    jobs = []
    for k in range(nh):
        if not ok_srcs:
            break
        src = ok_srcs[k % len(ok_srcs)]
        ops = [rnd.choice(QUERY_OPS) for _ in range(rnd.randint(1, 6))]
        jobs.append((src, ops))
    with multiprocessing.Pool(min(common.NPROC, 12)) as pool:
        res = pool.map(_history_worker, jobs, chunksize=20)
    nbad = 0
    checked = 0
    for r in res:
        if r is None:
            continue
        checked += 1
        if r[0] != "ok" and nbad < 4:
            chk.violation("history_%d" % nbad, {"kind": "history", "source": r[0], "calls": r[1] + ["depth"], "fresh_depth": r[2], "observed": r[3],
                                                "what": "depth() after a history of validate/unroll/depth/query calls differs from depth() of a fresh module"})
            nbad += 1
    direct.histories = checked
    # (c) depth() around transformations: the value is that of the module's current program
    #     (abstract machine of the module API, coq/Module/ModuleSpec.v), whatever was queried before
    import modcheck
    import modcorr
    mrnd = random.Random(chk.seed + 29)
    progs = modcheck.programs(mrnd, 30 if chk.tier == "quick" else 150)
    cases = []
    for k in range(120 if chk.tier == "quick" else 1500):
        src = progs[k % len(progs)]
        body, nmod = [], 1
        for _ in range(mrnd.randint(1, 3)):
            i = mrnd.randrange(nmod)
            if mrnd.random() < 0.6:
                body.append((i, "depth"))
            inpl = mrnd.random() < 0.7
            body.append((i, mrnd.choice(modcorr.TRANSFORMS), inpl))
            if not inpl:
                nmod += 1
            body.append((mrnd.randrange(nmod), "depth"))
        body += [(i, "depth") for i in range(nmod)]
        cases.append((src, body))
    # bookkeeping carried across transformations: depth() after remove_idle_qubits (registers renumbered) and a removal
    for cs in modcheck.chains(mrnd, "chains", lasts=(("depth",), ("depth", "unroll", "depth"))):
        cases.append((cs["src"], cs["hist"]))
    codes, real, errs = modcorr.evaluate(cases, tag="c09hist")
    nb = 0
    for (src, h), c, r in zip(cases, codes, real):
        if c not in (0, None, 999) and h[c - 1][1] == "depth" and nb < 4:
            nb += 1
            chk.violation("transform_history_%d" % nb, {"kind": "history", "source": src, "calls": [list(o) for o in h[:c]],
                                                        "what": "depth() differs from the depth of the module's current program",
                                                        "implementation_output": str(r["outs"][c - 1][1])})
    direct.transform_histories = sum(1 for c in codes if c == 0)


def run(tier, seed, replay):
    if replay:
        return replay_cmd(replay)
    direct.histories = 0
    return langcheck.standard(PROP, tier, seed, cases(tier, seed), classify, direct=direct, spec_codes=(15,), extra_targets=("Module/ModuleSpec.vo",),
                              extra_cov=lambda run: {"histories_checked": direct.histories, "whole_program_theorem_judgement_on_real_programs": getattr(direct, "expansion", {}),
                                                     "transformation_histories_agreeing_with_machine": getattr(direct, "transform_histories", 0),
                                                     "depth_histogram": _hist(run)})


def _hist(run):
    h = {}
    for o in run.outcomes:
        if o.get("unroll") == "ok":
            d = o.get("depth")
            k = str(d) if d is not None and d < 10 else "10+"
            h[k] = h.get(k, 0) + 1
    return dict(sorted(h.items()))


def replay_cmd(path):
    import json
    r = json.load(open(path))
    if r.get("kind") == "history":
        chk = common.Check(PROP, "quick", 0)
        if any(isinstance(c, list) for c in r["calls"]):
            import modcheck
            return modcheck.replay_cmd(PROP, path)
        res = _history_worker((r["source"], [c for c in r["calls"][:-1]]))
        print("history replay:", res)
        if res is not None and res[0] != "ok":
            chk.violation("replayed", r)
        return chk.finish()
    return langcheck.replay_cmd(PROP, path)
