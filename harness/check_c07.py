"""C07: classical expressions and typed assignments evaluate to their OpenQASM values."""
import random

import gen
import langcheck

PROP = "C07"


def cases(tier, seed):
    rnd = random.Random(seed)
    n = 600 if tier == "quick" else 12000
    out = [dict(src=s, family="expressions") for s in gen.expr_cases(rnd, n)]
    out += [dict(src=s, family="arrays") for s in gen.array_cases(rnd, 300 if tier == "quick" else 5000)]
    out += [dict(src=s, family="strided-array-slices") for s in gen.strided_slice_cases()[:: (2 if tier == "quick" else 1)]]
    out += [dict(src=s, family="array-element-arithmetic") for s in gen.array_arith_cases()]
    return out


def classify(run, i, model):
    """the numbers in the output (gate angles, indices, iteration counts) differ from the modelled evaluation"""
    o = run.outcomes[i]
    v = run.verdicts[i]
    if model is None or model[0] == "unparsed":
        return None
    if v in (1, 2):
        return ("outcome", {"kind": "program", "what": "the program is accepted/rejected differently from the modelled evaluation (range check or operator typing)",
                            "model": model[0] if model[0] != "ok" else "accepted"})
    if o.get("unroll") == "ok" and model[0] == "ok" and o.get("ops") is not None and o["ops"] != model[1]:
        k = next((j for j, (a, b) in enumerate(zip(o["ops"], model[1])) if a != b), min(len(o["ops"]), len(model[1])))
        return ("value", {"kind": "program", "what": "a folded value in the output differs from the evaluated expression",
                          "first_difference_at": k, "expected": str(model[1][k:k + 2]), "got": str(o["ops"][k:k + 2])})
    return None


def run(tier, seed, replay):
    if replay:
        return langcheck.replay_cmd(PROP, replay)
    return langcheck.standard(PROP, tier, seed, cases(tier, seed), classify)
