"""Shared engine of the module-layer checks (C10-C16, C09 history clause): API histories on real
pyqasm modules vs the abstract machine coq/Module/ModuleSpec.v evaluated by coqc."""
import collections
import json
import os
import random

import common
import gen
import langcheck
import modcorr

PROFILE = dict(gates=6, mods=1, measure=3, reset=1, barrier=2, if_ct=1, if_meas=2, for_=2, switch=1, alias=1, assign=1, decl=1,
               call=1, custom=2, phase=1, gate_phase=False)
FIXED_PROGRAMS = [
    # idle qubits in every position, a fully idle register, use only inside a conditional block, decomposed gates
    'OPENQASM 3.0;\ninclude "stdgates.inc";\nqubit[4] q;\nqubit[2] r;\nqubit[3] s;\nbit[3] c;\nu3(0.1, 0.2, 0.3) q[1];\ncx q[1], q[3];\nc[0] = measure q[3];\nif (c[0] == 1) {\n  x s[1];\n  barrier s[1];\n  c[1] = measure s[1];\n}\nreset q[3];\n',
    # a qubit touched only by a barrier / only by a reset / only in a later loop iteration
    'OPENQASM 3.0;\ninclude "stdgates.inc";\nqubit[5] q;\nbit[2] c;\nh q[0];\nbarrier q[1];\nreset q[2];\nfor int i in [3:4] {\n  x q[i];\n}\nc[0] = measure q[0];\n',
    # nothing but declarations: every qubit idle, depth 0
    'OPENQASM 3.0;\ninclude "stdgates.inc";\nqubit[2] q;\nqubit[4] q2;\nqubit q3;\nh q3;\n',
    # gates across registers of different sizes, an include after other statements, nested measurements only
    'OPENQASM 3.0;\nqubit[5] a;\nqubit[3] b;\nqubit anc;\nbit[2] c;\ninclude "stdgates.inc";\ncx a[1], b[0];\ncrz(0.5) b[2], anc;\nccx a[4], b[1], anc;\nif (c[0] == 1) {\n  c[1] = measure a[4];\n  x b[0];\n}\n',
    # measurement and barrier inside loops and a subroutine, custom gate, broadcast
    'OPENQASM 3.0;\ninclude "stdgates.inc";\nqubit[3] q;\nqubit[2] r;\nbit[3] c;\ngate g(t) x, y { rx(t) x; cx x, y; }\ndef f(qubit[2] a) { barrier a; h a[1]; }\nfor int i in [0:1] {\n  c[i] = measure q[i];\n  barrier q[i];\n}\ng(0.5) q[0], q[2];\nf(r);\nh q;\n',
    # statements the visitor rewrites while lowering them: modifiers on gphase and on gates, folded parameters, aliases, ranges
    'OPENQASM 3.0;\ninclude "stdgates.inc";\nqubit[4] q;\nbit[2] c;\nconst int[8] n = 2;\npow(2) @ gphase(pi / 4);\ninv @ gphase(0.5);\npow(n) @ inv @ s q[0];\nlet a = q[1:3];\nrx(n * 0.25) a;\ninv @ pow(2) @ t q[n];\ncx q[0], q[3];\nh q[0:2];\nc[0] = measure q[n];\n',
    'OPENQASM 3.0;\ninclude "stdgates.inc";\nqubit[3] q;\ngate g(t) x, y { pow(2) @ rx(t) x; inv @ s y; cx y, x; }\npow(2) @ gphase(0.25);\ninv @ g(0.5) q[0], q[1];\npow(2) @ g(0.25) q[1], q[2];\ncz q[0], q[2];\n',
    # a loop, whole-register and sliced operands, a custom gate: the source-level and the unrolled program differ a lot
    'OPENQASM 3.0;\ninclude "stdgates.inc";\nqubit[4] q;\nbit[2] c;\ngate g(t) x, y { rx(t) x; cx x, y; }\nfor int i in [0:2] {\n  h q[i];\n}\ng(0.5) q[0], q[3];\nbarrier q;\ncx q[0:2], q[2:4];\nc[0] = measure q[1];\n',
    # asymmetric use of two registers of different sizes (mirroring and renumbering are visible), a use only inside a conditional
    'OPENQASM 3.0;\ninclude "stdgates.inc";\nqubit[5] q;\nqubit[3] r;\nbit[2] c;\nh q[0];\ncx q[0], q[1];\nx r[0];\nc[0] = measure q[1];\nif (c[0] == 1) {\n  z r[0];\n  cx q[1], r[0];\n}\n',
    # a qubit touched only by barriers (idle once they are removed), another never touched, an operation across the gap
    'OPENQASM 3.0;\ninclude "stdgates.inc";\nqubit[5] q;\nbit[1] c;\nh q[0];\nbarrier q[2];\ncx q[0], q[4];\nbarrier q[0], q[2];\nc[0] = measure q[4];\n',
    # measured-only and barrier-only qubits on both sides of the qubits that carry gates: removals make qubits idle below
    # AND above the survivors, in an order that is not ascending in the bookkeeping
    'OPENQASM 3.0;\ninclude "stdgates.inc";\nqubit[6] a;\nqubit[3] b;\nbit[3] c;\nc[0] = measure a[0];\ncx a[2], a[3];\nc[1] = measure a[5];\nbarrier a[1];\nx b[1];\nc[2] = measure b[2];\nbarrier b[0];\n',
    # declarations without a literal size (a visit rewrites them)
    'OPENQASM 3.0;\ninclude "stdgates.inc";\nconst int[8] n = 3;\nqubit[n] q;\nqubit a;\nbit c;\nh q[0];\ncx q[0], a;\nbarrier q[1], a;\nc = measure a;\n',
    # conditionals inside conditionals and an else-if chain on a partially idle register (every rewrite must reach every depth)
    'OPENQASM 3.0;\ninclude "stdgates.inc";\nqubit[6] q;\nbit[3] c;\nh q[1];\nc[0] = measure q[1];\nif (c[0] == 1) {\n  x q[3];\n  if (c[1] == 0) {\n    z q[5];\n    barrier q[5];\n    c[2] = measure q[5];\n    if (c[2] == 1) {\n      y q[5];\n      barrier q[3];\n    }\n  }\n}\nif (c[0] == 0) {\n  x q[1];\n} else if (c[1] == 1) {\n  y q[3];\n  c[1] = measure q[3];\n} else {\n  s q[5];\n}\n',
    # registers declared inside a block that runs at compile time (they are part of the unrolled program and of the counts)
    'OPENQASM 3.0;\ninclude "stdgates.inc";\nqubit[3] q;\nbit[2] c;\nint[8] n = 2;\nh q[0];\nif (n == 2) {\n  bit[3] t;\n  t[1] = measure q[0];\n  x q[1];\n}\nfor int i in [0:0] {\n  bit[2] u;\n  u[i] = measure q[1];\n}\nc[0] = measure q[1];\n',
    # subroutines applied to index sets listed in descending / mixed order, bodies touching only some of their formal qubits
    'OPENQASM 3.0;\ninclude "stdgates.inc";\nqubit[7] q;\nbit[2] c;\ndef first(qubit[2] p) { h p[0]; }\ndef pick(qubit[3] p, qubit a) { cx p[0], a; barrier p[1]; }\nfirst(q[{3, 1}]);\npick(q[{6, 2, 0}], q[4]);\nc[0] = measure q[3];\n',
    # bit registers declared with computed initial values (they count as registers on the validate path as on the unroll path)
    'OPENQASM 3.0;\ninclude "stdgates.inc";\nqubit[3] q;\nint[8] n = 1;\nconst int[8] k = 2;\nbit[4] a = n + 1;\nbit[2] f = k;\nbit e = !false;\nbit[3] c;\nh q[0];\na[1] = measure q[0];\nif (a[1] == 1) {\n  x q[1];\n}\nc[2] = measure q[1];\nbarrier q[2];\n',
    # a loop whose first iterations emit nothing (a qubit is touched in the last iteration only, directly and through a subroutine)
    'OPENQASM 3.0;\ninclude "stdgates.inc";\nqubit[4] q;\nbit[1] c;\ndef late(qubit a, int[8] k) { if (k == 2) { x a; } }\nh q[0];\nfor int i in [0:2] {\n  if (i == 2) {\n    x q[1];\n  }\n}\nfor int j in [0:2] {\n  late(q[2], j);\n}\nc[0] = measure q[0];\n',
    # OpenQASM 2 modules go through the same machinery (their own accept / printer)
    'OPENQASM 2.0;\ninclude "qelib1.inc";\nqreg q[4];\nqreg r[2];\ncreg c[4];\nh q[0];\ncx q[0],q[2];\nbarrier q[0],q[2];\nmeasure q[2] -> c[2];\nu3(0.1,0.2,0.3) r[1];\nif(c==1) x q[0];\nbarrier r;\n',
    'OPENQASM 2.0;\ninclude "qelib1.inc";\nqreg q[3];\ncreg c[3];\ngate g2(t) a, b { rx(t) a; cx a, b; }\ng2(0.5) q[0],q[1];\nbarrier q;\nh q[1];\nmeasure q -> c;\n',
]


def programs(rnd, n, profile=None):
    """valid programs inside the module-history envelope (modcorr.program_in_envelope)"""
    import logging
    logging.disable(logging.CRITICAL)
    import pyqasm
    out = list(FIXED_PROGRAMS)
    prof = dict(PROFILE)
    prof.update(profile or {})
    tries = 0
    while len(out) < n and tries < 40 * n:
        tries += 1
        if tries % 7 == 0:
            import check_c19                       # an OpenQASM 2 program: the version-2 module class has its own accept / printer
            src = check_c19.qasm2_program(rnd)
        else:
            src = gen.G(rnd, prof).program(nstmts=rnd.randint(3, 8))[0]
        try:
            m = pyqasm.loads(src)
            m.unroll()
            if not modcorr.program_in_envelope(m.unrolled_ast.statements):
                continue
            out.append(src)
        except Exception:
            continue
    return out[:max(n, len(FIXED_PROGRAMS))]


def enumerated(rnd, ops, family, before=((), ("unroll",), ("validate",)), after=((),), modes=(True, False), programs_=None):
    """every structured program x every listed transformation x in place or not, after each prefix of queries and
    followed by each suffix (tuples of op names; a transformation name in a suffix is applied in place to the
    result) -- the part of a check that does not depend on the random case mix"""
    out = []
    for src in (programs_ or FIXED_PROGRAMS):
        for t in ops:
            for inpl in modes:
                for pre in before:
                    for post in after:
                        body = [(0, q) for q in pre] + [(0, t, inpl)]
                        tgt, nmod = (0, 1) if inpl else (1, 2)
                        for q in post:
                            body.append((tgt, q, True) if q in modcorr.TRANSFORMS else (tgt, q))
                        hist, nobs = hist_with_obs(rnd, body, nmod)
                        out.append(dict(src=src, hist=hist, nobs=nobs, family=family))
    return out


CHAIN_PROGRAMS = [
    # two registers with idle qubits in the middle and qubits that are only measured / only behind a barrier: a removal after
    # remove_idle_qubits makes further qubits idle, in a register whose bookkeeping was renumbered
    'OPENQASM 3.0;\ninclude "stdgates.inc";\nqubit[3] a;\nqubit[4] b;\nbit[3] c;\nx a[1];\nx b[3];\nc[0] = measure a[0];\nc[1] = measure b[0];\nc[2] = measure b[2];\n',
    'OPENQASM 3.0;\ninclude "stdgates.inc";\nqubit[5] q;\nqubit[3] r;\nbit[2] c;\nh q[0];\nbarrier q[1];\ncx q[0], q[4];\nbarrier r[2];\nx r[0];\nc[0] = measure q[4];\nbarrier q[0], q[4];\nc[1] = measure r[0];\n',
    # the critical path runs through a qubit with a high index (renumbered by remove_idle_qubits) and through a multi-qubit barrier
    'OPENQASM 3.0;\ninclude "stdgates.inc";\nqubit[6] q;\nbit[2] c;\nh q[5];\nx q[5];\nz q[5];\ns q[5];\nc[0] = measure q[5];\nh q[1];\nbarrier q[1], q[5];\nc[1] = measure q[1];\nreset q[3];\n',
    'OPENQASM 2.0;\ninclude "qelib1.inc";\nqreg a[3];\nqreg b[4];\ncreg c[3];\nx a[1];\nh b[3];\nt b[3];\nbarrier b[2], b[3];\nmeasure a[0] -> c[0];\nmeasure b[0] -> c[1];\nmeasure b[2] -> c[2];\n',
]


def chains(rnd, family, lasts, firsts=("remove_idle_qubits",), mids=("remove_measurements", "remove_barriers", "reverse_qubit_order"),
           prefixes=((), ("validate",), ("num_qubits",), ("unroll",), ("depth",))):
    """first transformation, a second one that changes which qubits are used, then each of `lasts` (a transformation or a
    tuple of queries), after each prefix of queries, on the chain programs: bookkeeping carried from one call to the next"""
    out = []
    for src in CHAIN_PROGRAMS:
        for pre in prefixes:
            for t1 in firsts:
                for t2 in mids:
                    for last in lasts:
                        body = [(0, q) for q in pre] + [(0, t1, True), (0, t2, True)]
                        for q in (last if isinstance(last, tuple) else (last,)):
                            body.append((0, q, True) if q in modcorr.TRANSFORMS else (0, q))
                        hist, nobs = hist_with_obs(rnd, body, 1)
                        out.append(dict(src=src, hist=hist, nobs=nobs, family=family))
    return out


def conversion_histories(rnd, family):
    """to_qasm3() in the middle of a history: the version-3 module it returns holds the version-2 module's CURRENT
    program and is independent of it (transformations of either leave the other alone)"""
    out = []
    q2 = [p for p in FIXED_PROGRAMS if p.startswith("OPENQASM 2")]
    q3 = [p for p in FIXED_PROGRAMS if not p.startswith("OPENQASM 2")][:2]
    for src in q2 + q3:
        for pre in ((), ("unroll",), ("remove_barriers",), ("remove_measurements", "validate"), ("reverse_qubit_order",), ("remove_idle_qubits", "depth")):
            for post0 in ((), ("remove_idle_qubits",), ("remove_barriers",)):
                for post1 in ((), ("remove_idle_qubits",), ("reverse_qubit_order", "unroll"), ("remove_measurements",)):
                    body = [((0, q, True) if q in modcorr.TRANSFORMS else (0, q)) for q in pre] + [(0, "to_qasm3")]
                    body += [((0, q, True) if q in modcorr.TRANSFORMS else (0, q)) for q in post0]
                    body += [((1, q, True) if q in modcorr.TRANSFORMS else (1, q)) for q in post1]
                    hist, nobs = hist_with_obs(rnd, body, 2)
                    out.append(dict(src=src, hist=hist, nobs=nobs, family=family))
    return out


def shrink_history(src, hist, nobs, fails):
    """drop calls (never the trailing observation block) while the disagreement persists"""
    body, obs = hist[:len(hist) - nobs], hist[len(hist) - nobs:]
    changed = True
    steps = 0
    while changed and steps < 25:
        changed = False
        for k in range(len(body)):
            cand = body[:k] + body[k + 1:]
            # dropping a module-creating call shifts module numbers: only drop calls that create none
            if body[k][1] == "copy" or (len(body[k]) > 2 and not body[k][2]):
                continue
            steps += 1
            if fails(cand + obs):
                body = cand
                changed = True
                break
    return body + obs


FAILING_BASE = [
    'OPENQASM 3.0;\ninclude "stdgates.inc";\nqubit[4] q;\nbit[2] c;\ngate cg(a) x, y { rx(a) x; cx x, y; }\ncg(0.5) q[0], q[1];\nbarrier q[0], q[1];\nh q[1];\nc[0] = measure q[0];\nbarrier q[1];\nc[1] = measure q[1];\n',
    'OPENQASM 3.0;\ninclude "stdgates.inc";\nqubit[3] q;\nbit[1] c;\ngate g1 x { h x; }\ngate g2 x, y { g1 x; cx x, y; }\ng2 q[0], q[1];\nbarrier q;\ng1 q[1];\nc[0] = measure q[1];\nif (c[0] == 1) {\n  g1 q[0];\n  barrier q[0];\n}\n',
]


def _observe(m):
    import pyqasm
    out = []
    for name in ("dumps", "num_qubits", "num_clbits", "has_measurements", "has_barriers", "depth"):
        try:
            v = pyqasm.dumps(m) if name == "dumps" else getattr(m, name) if name.startswith("num_") else getattr(m, name)()
            out.append((name, "ok", v))
        except Exception as e:
            out.append((name, "error", type(e).__name__))
    return out


def failed_call_oracle(chk, transforms):
    """a call that is REJECTED in the middle of a history leaves the module as the earlier calls made it: gates kept
    external, a transformation (the definitions are gone, so a plain unroll() is rejected), the rejected unroll(), then
    unroll(external_gates) again -- every observable must equal that of the same history without the rejected call"""
    import logging
    logging.disable(logging.CRITICAL)
    import pyqasm
    n = bad = 0
    for src in FAILING_BASE:
        ext = ["cg"] if "cg(" in src else ["g1", "g2"]
        for t in transforms:
            for inpl in (True,):
                def history(with_failure):
                    m = pyqasm.loads(src)
                    m.unroll(external_gates=ext)
                    getattr(m, t)(in_place=True)
                    failed = None
                    if with_failure:
                        try:
                            m.unroll()
                            failed = False
                        except Exception as e:
                            failed = type(e).__name__
                    try:
                        m.unroll(external_gates=ext)
                        again = "ok"
                    except Exception as e:
                        again = type(e).__name__
                    return failed, again, _observe(m)
                try:
                    f1, a1, o1 = history(True)
                    f0, a0, o0 = history(False)
                except Exception as e:
                    continue
                n += 1
                if f1 is False:
                    continue           # the plain unroll was accepted: nothing was rejected in this history
                if (a1, o1) != (a0, o0) and bad < 3:
                    bad += 1
                    k = next((i for i, (x, y) in enumerate(zip(o1, o0)) if x != y), None)
                    chk.violation("after_rejected_call_%d" % bad, {"kind": "history-ext", "source": src,
                                  "calls": [["unroll", {"external_gates": ext}], [t, {"in_place": True}], ["unroll", {}], ["unroll", {"external_gates": ext}]],
                                  "what": "after %s, a rejected unroll() (%s) changes what the module is: %s differs from the same history without the rejected call"
                                          % (t, f1, o1[k][0] if k is not None else "the outcome of the next unroll"),
                                  "with_rejected_call": str(o1[k])[:600] if k is not None else a1, "without": str(o0[k])[:600] if k is not None else a0})
    return n


def run(prop, tier, seed, make_cases, theorem_targets=(), note="", extra_cov=None, known_replays=True, failed_call_after=()):
    """make_cases(rnd, tier, progs_fn) -> list of dict(src, hist, nobs, family)"""
    chk = common.Check(prop, tier, seed)
    known = common.load_known(prop)
    res = common.build(["Module/ModuleSpec.vo", "Props/%s.vo" % prop] + list(theorem_targets), fresh=["Props/%s.v" % prop])
    closed, axioms = common.parse_assumptions(res.log)
    bad_axioms = common.axioms_ok(axioms)
    hyg = common.hygiene()
    proof_ok = res.ok and not bad_axioms and not hyg
    rnd = random.Random(seed * 7919 + 13)
    cases = []
    ops_hist = collections.Counter()
    fam = collections.Counter()
    corr_broken = []
    codes = []
    if res.translator_error is None and os.path.exists(os.path.join(common.COQ, "Module", "ModuleSpec.vo")):
        # corpus first: committed replays of repaired defects and known findings
        corpus = []
        for e in known:
            rp = e.get("replay", {})
            if rp.get("kind") == "history":
                corpus.append(dict(src=rp["source"], hist=[tuple(o) for o in rp["calls"]], nobs=0, family="corpus:" + e["id"], entry=e))
        common.run_script_replays(chk, known)
        cases = corpus + make_cases(rnd, tier, lambda n, profile=None: programs(rnd, n, profile))
        codes, real, errs = modcorr.evaluate([(c["src"], c["hist"]) for c in cases])
        for f, e in errs:
            corr_broken.append("coqc failed on %s: %s" % (os.path.basename(f), e[-300:]))
        nviol = 0
        nframe = 0
        for c, r in zip(cases, real):
            if r and r.get("frames") and nframe < 3:
                nframe += 1
                f0 = r["frames"][0]
                chk.violation("frame_%d" % nframe, {"kind": "history", "source": c["src"], "calls": [list(o) for o in c["hist"][: f0["after_call"] + 1]],
                                                    "family": c["family"], "what": "a call on module %d changed the printed program of module %d, which the call does not concern"
                                                    % (f0["call"][0], f0["changed_module"]), "printed_before": f0["before"], "printed_after": f0["after"]})
        for c, code, r in zip(cases, codes, real):
            fam[c["family"].split(":")[0]] += 1
            for o in c["hist"]:
                ops_hist[o[1] + ("" if len(o) < 3 else ("" if o[2] else "(in_place=False)"))] += 1
            if code in (0, None, 999):
                continue
            entry = c.get("entry")
            if entry is not None and entry["status"] == "known":
                chk.known("%s: %s" % (entry["id"], entry["what"][:100]))
                continue
            if nviol >= 6:
                nviol += 1
                continue
            nviol += 1
            hist = c["hist"]
            if entry is None and c["nobs"]:
                def fails(h, src=c["src"]):
                    cd, _, er = modcorr.evaluate([(src, h)], tag="shrink")
                    return cd[0] not in (0, None, 999)
                try:
                    hist = shrink_history(c["src"], hist, c["nobs"], fails)
                except Exception:
                    hist = c["hist"]
                cd, rr, _ = modcorr.evaluate([(c["src"], hist)], tag="shrunk")
                code2, r2 = cd[0], rr[0]
                if code2 in (0, None, 999):
                    hist, code2, r2 = c["hist"], code, r
            else:
                code2, r2 = code, r
            k = code2 - 1
            payload = {"kind": "history", "source": c["src"], "calls": [list(o) for o in hist], "family": c["family"],
                       "first_disagreement_at_call": k, "call": modcorr.op_text(hist[k]) if k < len(hist) else None,
                       "implementation_output": str(r2["outs"][k][1])[:1500] if k < len(r2["outs"]) else None,
                       "what": "the implementation's answer differs from the abstract machine (coq/Module/ModuleSpec.v) at this call",
                       "machine_outputs": modcorr.machine_outputs(r2["prog"], r2["q2"], hist)[-1200:]}
            if entry is not None:
                payload["regressed_fix"] = entry["id"]
            chk.violation("%s_%d" % ("regressed" if entry is not None else "history", nviol), payload)
    nfailed = failed_call_oracle(chk, failed_call_after) if failed_call_after else 0
    if not proof_ok and not chk.violations:
        chk.violation("proof_broken", {"kind": "proof", "broken": res.failed_target or res.translator_error or
                                       ("axioms %s" % bad_axioms if bad_axioms else "hygiene %s" % hyg),
                                       "theorem_file": "coq/Props/%s.v" % prop, "log_tail": res.log[-1500:]}, no_input=True)
    elif corr_broken and not chk.violations:
        chk.violation("correspondence_broken", {"kind": "correspondence", "what": corr_broken[:3]}, no_input=True)
    nthm = langcheck.count_theorems(prop)
    cnt = collections.Counter("agree" if c == 0 else "machine-silent" if c == 999 else "not-evaluated" if c is None else "disagree" for c in codes)
    cov = {
        "checker_cmd": "make -C coq Props/%s.vo Module/ModuleSpec.vo (coqc 8.16.1) %s" % (prop, note),
        "trusted_base": ["Coq 8.16.1 kernel + vm_compute (history evaluation)", "harness/ir.py (openqasm3 AST -> Gallina)",
                         "harness/modcorr.py, harness/modcheck.py (history correspondence)", "coq/Lang/Unroll.v (visitor model, tied to the code by the language-layer checks)",
                         "axioms: " + (", ".join(sorted(a for a in axioms if a in common.ALLOWED_AXIOMS)) or "none beyond PrimFloat/Uint63 primitives")],
        "source_fingerprint": common.src_fingerprint(),
        "evaluations": len(cases),
        "distinct_nontrivial": len(set((c["src"], tuple(c["hist"])) for c in cases)),
        "rule": "one evaluation = one call history (transformations, queries, copies; followed by an observation of every module: dumps, counts, flags, depth in random order) "
                "run on real pyqasm modules and on the abstract machine; every output of every call is compared; all histories contain at least one call and end in observations, hence non-trivial; distinct by (program, history)",
        "families": dict(fam),
        "calls": dict(ops_hist),
        "outcomes": dict(cnt),
        "distinct_programs": len(set(c["src"] for c in cases)),
        "histories_with_a_rejected_call_after_the_transformation": nfailed,
        "traces_validated_against_impl": cnt.get("agree", 0),
        "samples": [{"family": c["family"], "source": c["src"], "calls": [modcorr.op_text(o) for o in c["hist"]]} for c in cases[:: max(1, len(cases) // 3)][:3]],
        "envelope": ["programs whose unrolled form has a qubit-restricted gphase or a conditional with an empty if-block are not used (they do not re-load: C03 known findings)",
                     "programs have at least one top-level gate (an empty unrolled program is indistinguishable from 'not unrolled')",
                     "machine silent when a removal empties an if-block", "has_* compared only when the textual and the inlined reading of 'contains' coincide"],
    }
    if proof_ok:
        cov["obligations"] = nthm
        cov["discharged"] = nthm
    else:
        cov["proof_broken"] = res.failed_target or res.translator_error or str(bad_axioms or hyg)
    if extra_cov:
        cov.update(extra_cov)
    chk.coverage = cov
    chk.assumptions = ["openqasm3 parser/printer", "CPython float arithmetic = IEEE binary64 (PrimFloat)"]
    return chk.finish()


def replay_cmd(prop, path):
    r = json.load(open(path))
    chk = common.Check(prop, "quick", 0)
    if r.get("kind") == "history-ext" and r.get("calls") and isinstance(r["calls"][1], list) and isinstance(r["calls"][1][1], dict):
        # a rejected call after a transformation (failed_call_oracle): run that one history again
        global FAILING_BASE
        saved, FAILING_BASE = FAILING_BASE, [r["source"]]
        try:
            n = failed_call_oracle(chk, (r["calls"][1][0],))
        finally:
            FAILING_BASE = saved
        print("histories run:", n, "violations:", len(chk.violations))
        return chk.finish()
    if r.get("kind") == "history":
        common.build(["Module/ModuleSpec.vo"])
        hist = [tuple(o) for o in r["calls"]]
        codes, real, errs = modcorr.evaluate([(r["source"], hist)])
        print("history:", [modcorr.op_text(o) for o in hist])
        print("implementation outputs:", [str(o[1])[:80] for o in real[0]["outs"]] if real[0] else None)
        print("first disagreement code:", codes[0])
        if codes[0] not in (0, 999, None):
            chk.violation("replayed", r)
    else:
        print("replay kind not executable:", r.get("kind"), r.get("broken") or r.get("what"))
        chk.violation("replayed", r, no_input=True)
    return chk.finish()


def hist_with_obs(rnd, body, nmod):
    obs = modcorr.observation_suffix(rnd, nmod)
    return body + obs, len(obs)
