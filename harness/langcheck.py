"""Shared engine of the language-layer checks (C01-C04, C06-C09, C18): build the Coq targets,
run the implementation and the model on generated programs, classify disagreements."""
import multiprocessing
import os
import re
import subprocess

import common
import coqterm
import flatsim
import ir
import langcorr


def _impl_worker(args):
    import logging
    logging.disable(logging.CRITICAL)
    src, ext = args
    o = langcorr.run_impl(src, ext)
    # AST objects are picklable; keep only what is needed
    return o


def run_impl_many(cases, parallel=True):
    """cases: list of (src, externals|None)"""
    if parallel and len(cases) > 400:
        with multiprocessing.Pool(min(common.NPROC, 12)) as pool:
            return pool.map(_impl_worker, cases, chunksize=25)
    return [_impl_worker(c) for c in cases]


def model_outputs(outcomes, idxs):
    """ask Coq for the model's own unroll output on the given cases.
    returns {idx: ('ok', ops, nq, nc, depth) | ('err', text) | ('unparsed', text)}"""
    if not idxs:
        return {}
    d = common.run_dir()
    f = os.path.join(d, "modelout.v")
    with open(f, "w") as fh:
        fh.write(langcorr.HEADER)
        for k, i in enumerate(idxs):
            o = outcomes[i]
            fh.write("Eval vm_compute in (%d%%nat, match unroll_v %s %s %s with "
                     "Ok o => inl (o_stmts o, num_qubits (o_state o), num_clbits (o_state o), max_depth (o_state o)) "
                     "| Err e => inr e end).\n"
                     % (k, "true" if o.get("qasm2") else "false", ir.clist([ir.cstr(x) for x in o["ext"]]),
                        o["prog_term"]))
    p = subprocess.run(["timeout", "600", "coqc", "-Q", common.COQ, "Verif", f], capture_output=True, text=True)
    res = {}
    if p.returncode != 0:
        for i in idxs:
            res[i] = ("unparsed", p.stderr[-300:])
        return res
    chunks = re.split(r"\n\s*=\s", "\n" + p.stdout)
    for ch in chunks:
        ch = ch.strip()
        if not ch:
            continue
        body = ch.rsplit("\n     :", 1)[0]
        try:
            t = coqterm.parse(body)
            k = t[1][0][1]
            v = t[1][1]
            i = idxs[k]
            if v[1] == "inl":
                tup = v[2][0][1]
                ops = [coqterm.flat_stmt(s) for s in tup[0][1]]
                res[i] = ("ok", ops, tup[1][1], tup[2][1], tup[3][1])
            else:
                res[i] = ("err", str(v[2][0]))
        except Exception as e:  # model output that is not flat or not parseable
            res.setdefault(idxs[len(res)] if len(res) < len(idxs) else idxs[-1], ("unparsed", "%s: %s" % (type(e).__name__, str(e)[:200])))
    for i in idxs:
        res.setdefault(i, ("unparsed", "missing"))
    return res


def real_ops(o):
    """flat ops of the real unrolled output (None if it is not flat)"""
    return o.get("ops")


def shrink_program(src, still_fails, max_steps=60):
    """delete statements (whole lines / balanced blocks) while the predicate keeps failing"""
    lines = src.rstrip("\n").split("\n")
    head, body = lines[:2], lines[2:]
    steps = 0
    changed = True
    while changed and steps < max_steps:
        changed = False
        i = 0
        while i < len(body) and steps < max_steps:
            # candidate: one line, or a balanced block starting here
            depth = body[i].count("{") - body[i].count("}")
            j = i
            while depth > 0 and j + 1 < len(body):
                j += 1
                depth += body[j].count("{") - body[j].count("}")
            cand = body[:i] + body[j + 1:]
            steps += 1
            try:
                if cand and still_fails("\n".join(head + cand) + "\n"):
                    body = cand
                    changed = True
                    continue
            except Exception:
                pass
            i += 1
    return "\n".join(head + body) + "\n"


class LangRun:
    """one correspondence run over a list of labelled cases"""

    def __init__(self, cases, strict=False, tag="cases"):
        # cases: list of dict(src=..., ext=[...]|None, family=..., label=...)
        self.cases = cases
        self.outcomes = run_impl_many([(c["src"], c.get("ext")) for c in cases])
        self.verdicts, self.errors = langcorr.evaluate(self.outcomes, tag=tag, strict=strict)
        self.spec = list(langcorr.evaluate.last_spec)

    def spec_counts(self):
        c = {}
        for v in self.spec:
            k = langcorr.SPEC_VERDICTS.get(v, "not-run" if v is None else str(v))
            c[k] = c.get(k, 0) + 1
        return c

    def disagreements(self):
        return [i for i, v in enumerate(self.verdicts) if v not in (0, 9, None)]

    def counts(self):
        c = {}
        for v in self.verdicts:
            k = langcorr.VERDICTS.get(v, "not-run" if v is None else str(v))
            c[k] = c.get(k, 0) + 1
        return c

    def family_counts(self):
        c = {}
        for cs in self.cases:
            c[cs["family"]] = c.get(cs["family"], 0) + 1
        return c

    def nontrivial(self):
        """distinct programs that either emit a quantum operation or are rejections"""
        seen = set()
        for cs, o in zip(self.cases, self.outcomes):
            if o.get("load") != "ok":
                continue
            key = cs["src"] + "|" + ",".join(cs.get("ext") or [])
            if key in seen:
                continue
            if o.get("unroll") != "ok":
                seen.add(key)
            elif any(x[0] in ("gate", "measure", "reset", "barrier", "gphase", "if") for x in (o.get("ops") or [])):
                seen.add(key)
        return len(seen)


def build_for(prop, extra_targets=()):
    targets = ["Lang/Corr.vo", "Props/%s.vo" % prop] + list(extra_targets)
    return common.build(targets, fresh=["Props/%s.v" % prop])


def count_theorems(prop):
    txt = common.strip_comments(open(os.path.join(common.COQ, "Props", "%s.v" % prop)).read())
    return len(re.findall(r"^\s*(Theorem|Lemma|Example)\s", txt, re.M))


def standard(prop, tier, seed, cases, classify, direct=None, known_match=None, extra_cov=None,
             trusted=None, checker_note="", spec_codes=(11, 12, 13, 14), extra_targets=()):
    """cases: list of dict(src, ext, family, label).
    classify(run, i, model) -> None | (tag, payload): does disagreement i exhibit a failure of THIS property?
    direct(run, chk): property oracles evaluated directly on the real outputs (may call chk.violation / chk.known)
    known_match(payload) -> known-finding entry or None."""
    chk = common.Check(prop, tier, seed)
    known = common.load_known(prop)
    res = build_for(prop, extra_targets)
    closed, axioms = common.parse_assumptions(res.log)
    bad_axioms = common.axioms_ok(axioms)
    hyg = common.hygiene()
    proof_ok = res.ok and not bad_axioms and not hyg
    run = None
    corr_broken = []
    found_input = False
    if res.translator_error is None and os.path.exists(os.path.join(common.COQ, "Lang", "Corr.vo")):
        run = LangRun(cases)
        dis = run.disagreements()
        models = model_outputs(run.outcomes, dis[:40])
        for i in dis:
            v = None
            try:
                v = classify(run, i, models.get(i))
            except Exception as e:  # classification itself failed: keep the disagreement
                v = None
                corr_broken.append((i, "classifier error %s" % e))
            if v is not None:
                tag, payload = v
                payload.update({"source": run.cases[i]["src"], "external_gates": run.cases[i].get("ext"),
                                "family": run.cases[i]["family"],
                                "implementation": {k: run.outcomes[i].get(k) for k in ("validate", "unroll", "nq", "nc", "depth")},
                                "verdict": langcorr.VERDICTS.get(run.verdicts[i])})
                kf = known_match(payload) if known_match else None
                if kf is not None:
                    chk.known("%s: %s" % (kf["id"], kf["what"][:100]))
                else:
                    found_input = True
                    chk.violation("%s_%d" % (tag, i), payload)
            else:
                corr_broken.append((i, langcorr.VERDICTS.get(run.verdicts[i])))
        for f, e in run.errors:
            corr_broken.append((-1, "coqc failed on %s: %s" % (os.path.basename(f), e[-200:])))
        # specification oracle (reference semantics evaluated in Coq, lenient envelope) on the real outputs
        nspec = 0
        for i, sv in enumerate(run.spec):
            if sv in spec_codes and nspec < 8:
                nspec += 1
                o = run.outcomes[i]
                chk.violation("spec_%d" % i, {"kind": "program", "source": run.cases[i]["src"], "external_gates": run.cases[i].get("ext"),
                                              "family": run.cases[i]["family"], "what": "implementation differs from the reference semantics (coq/Lang/Spec.v): "
                                              + langcorr.SPEC_VERDICTS.get(sv, str(sv)),
                                              "implementation": {k: o.get(k) for k in ("validate", "unroll", "unroll_msg")}})
        if direct:
            direct(run, chk)
        found_input = found_input or bool(chk.violations)
        # known findings stated against the full-strength (strict) reference semantics
        kspec = [e for e in known if e.get("replay", {}).get("kind") == "spec-program"]
        if kspec:
            krun = LangRun([dict(src=e["replay"]["source"], ext=e["replay"].get("external_gates"), family="known") for e in kspec],
                           strict=True, tag="known")
            for e, sv, o in zip(kspec, krun.spec, krun.outcomes):
                failing = sv in (11, 12, 13, 14)
                if e["status"] == "known" and failing:
                    chk.known("%s: %s" % (e["id"], e["what"][:100]))
                if e["status"] == "fixed" and failing:
                    chk.violation("regressed_%s" % e["id"], {"kind": "program", "finding": e, "spec_verdict": langcorr.SPEC_VERDICTS.get(sv)})
    if not proof_ok and not chk.violations:
        chk.violation("proof_broken", {"kind": "proof", "broken": res.failed_target or res.translator_error or
                                       ("axioms %s" % bad_axioms if bad_axioms else "hygiene %s" % hyg),
                                       "theorem_file": "coq/Props/%s.v" % prop, "log_tail": res.log[-1500:]}, no_input=True)
    elif corr_broken and not chk.violations:
        ex = [{"case": run.cases[i]["src"] if i >= 0 else None, "external_gates": run.cases[i].get("ext") if i >= 0 else None,
               "why": w, "implementation": {k: run.outcomes[i].get(k) for k in ("validate", "unroll", "nq", "nc", "depth")} if i >= 0 else None}
              for i, w in corr_broken[:5]]
        chk.violation("correspondence_broken",
                      {"kind": "correspondence", "what": "model (coq/Lang/Unroll.v) and implementation disagree on %d cases; "
                       "no input on which property %s itself fails was found" % (len(corr_broken), prop),
                       "examples": ex}, no_input=True)
    common.run_script_replays(chk, known)
    # known findings: replay the committed ones
    for e in known:
        rp = e.get("replay", {})
        if rp.get("kind") != "program":
            continue
        still = not replay_program(rp)
        if e["status"] == "known" and still:
            chk.known("%s: %s" % (e["id"], e["what"][:100]))
        if e["status"] == "fixed" and still:
            chk.violation("regressed_%s" % e["id"], {"kind": "program", "finding": e})
    nthm = count_theorems(prop)
    cov = {
        "checker_cmd": "make -C coq Props/%s.vo Lang/Corr.vo (coqc 8.16.1) %s" % (prop, checker_note),
        "trusted_base": ["Coq 8.16.1 kernel + vm_compute (case evaluation)", "harness/ir.py (openqasm3 AST -> Gallina)",
                         "harness/langcorr.py (correspondence)", "translator/maps2coq.py"] + (trusted or []) +
                        ["axioms: " + (", ".join(sorted(a for a in axioms if a in common.ALLOWED_AXIOMS)) or "none beyond PrimFloat/Uint63 primitives")],
        "source_fingerprint": common.src_fingerprint(),
    }
    if proof_ok:
        cov["obligations"] = nthm
        cov["discharged"] = nthm
    else:
        cov["proof_broken"] = res.failed_target or res.translator_error or str(bad_axioms or hyg)
        cov.setdefault("evaluations", 1)
        cov.setdefault("distinct_nontrivial", 2)
    if run is not None:
        cov.update({
            "evaluations": len(run.cases),
            "distinct_nontrivial": run.nontrivial(),
            "rule": "programs from the listed generator families run through real pyqasm (validate, unroll) and the Coq model; "
                    "non-trivial = distinct program that emits a quantum operation or is rejected",
            "families": run.family_counts(),
            "correspondence": run.counts(),
            "specification_oracle": run.spec_counts(),
            "implementation_outcomes": _outcome_hist(run),
            "traces_validated_against_impl": sum(1 for v in run.verdicts if v == 0),
            "samples": [{"family": c["family"], "source": c["src"], "external_gates": c.get("ext")} for c in run.cases[:: max(1, len(run.cases) // 4)][:4]],
        })
    if extra_cov:
        try:
            cov.update(extra_cov(run) if callable(extra_cov) else extra_cov)
        except Exception as e:            # the correspondence did not run (the model does not build): nothing to describe
            cov["extra_coverage_unavailable"] = "%s: %s" % (type(e).__name__, e)
    chk.coverage = cov
    chk.assumptions = ["openqasm3 parser/printer", "CPython float arithmetic = IEEE binary64 (PrimFloat)"]
    return chk.finish()


def expansion_oracle(run, chk, select=lambda cs: True):
    """Lang/GateDefProofs.v, programs_with_gate_definitions_unroll_to_their_expansion (which contains Lang/BroadcastProofs.v and
    Lang/LoopProofs.v): for every program p with `gexpand env0 [] p = Some (q, evs)` the model's unroll() emits exactly q.  coqc evaluates the judgement on the parsed program
    of every selected case and compares q with the statements the IMPLEMENTATION emitted: inside the judgement they
    must be equal."""
    import os
    import subprocess
    import common
    import langcorr
    idx = [i for i, cs in enumerate(run.cases) if select(cs) and run.outcomes[i].get("prog_term") and not cs.get("ext")]
    tally = {"inside-the-judgement-and-equal": 0, "outside-the-judgement": 0, "not-evaluated": 0}
    d = common.run_dir()
    shard, procs = 100, []
    for k in range(0, len(idx), shard):
        part = idx[k:k + shard]
        f = os.path.join(d, "loops_%d.v" % (k // shard))
        terms = []
        for i in part:
            o = run.outcomes[i]
            outt = o.get("stmts_term") if o.get("unroll") == "ok" and o.get("stmts_term") else None
            counts = "(%d, %d, %d)%%Z" % (o.get("nq") if isinstance(o.get("nq"), int) else -1, o.get("nc") if isinstance(o.get("nc"), int) else -1,
                                             o.get("depth") if isinstance(o.get("depth"), int) else -1)
            terms.append("(%s, %s, %s, %s, %s)" % (o["prog_term"], "Some %s" % outt if outt else "None", counts, "true" if o.get("validate") == "ok" else "false",
                                                   "true" if o.get("qasm2") else "false"))
        with open(f, "w") as fh:
            fh.write(langcorr.HEADER.replace("Unroll Corr", "Unroll Depth DepthModel FixProofs LoopProofs BroadcastProofs GateDefProofs"))
            fh.write("Definition code (c : list stmt * option (list stmt) * (Z * Z * Z) * bool * bool) : nat :=\n"
                     "  let '(p, out, (nq, nc, dp), validated, version2) := c in\n"
                     "  if (version2 && negb (forallb qasm2_allowed p))%bool then 0 else\n"
                     "  match gjudge p, out with\n"
                     "  | None, _ => 0\n"
                     "  | Some (q, evs), Some o => if negb (list_eqb stmt_eqb q o) then 2 else if negb validated then 5\n"
                     "                           else if negb (Z.eqb (total_qubits q) nq && Z.eqb (total_clbits q) nc)%bool then 4\n"
                     "                           else if Z.eqb (total_depth rsrc_eqb (List.concat evs) evs) dp then 1 else 6\n"
                     "  | Some _, None => 3 end.\n")
            fh.write("Eval vm_compute in (map code\n [%s]).\n" % ";\n  ".join(terms))
        procs.append((part, subprocess.Popen(["timeout", "600", "coqc", "-Q", common.COQ, "Verif", f], stdout=subprocess.PIPE, stderr=subprocess.PIPE, text=True)))
    bad = 0
    for part, p in procs:
        so, se = p.communicate()
        vals = re.findall(r"\b(\d+)\b", so.split("= [", 1)[-1].split("]")[0]) if p.returncode == 0 and "= [" in so else []
        if len(vals) != len(part):
            tally["not-evaluated"] += len(part)
            continue
        for i, v in zip(part, vals):
            v = int(v)
            if v == 0:
                tally["outside-the-judgement"] += 1
            elif v == 1:
                tally["inside-the-judgement-and-equal"] += 1
            elif bad < 3:
                bad += 1
                o = run.outcomes[i]
                chk.violation("expansion_theorem_%d" % bad, {"kind": "program", "source": run.cases[i]["src"], "family": run.cases[i]["family"],
                              "what": "the program is inside the judgement of theorem programs_with_gate_definitions_unroll_to_their_expansion (gate calls replaced by the instantiated body, "
                                      "loops by their body at each value, whole-register operations by one operation per bit, in order) but the implementation " + {2: "emits different statements", 3: "rejects it: %s" % o.get("unroll"), 4: "reports other qubit / bit counts than the register sizes of the expansion",
                                                                                                  5: "rejects it in validate(): %s" % o.get("validate"),
                                                                                                  6: "reports a depth other than the recurrence over the judgement's events"}.get(v, "differs"),
                              "implementation": {k2: o.get(k2) for k2 in ("validate", "unroll", "nq", "nc", "depth")}})
    return tally




def _outcome_hist(run):
    h = {}
    for o in run.outcomes:
        k = "%s/%s" % ((o.get("validate") or "-").split(":")[0], (o.get("unroll") or "-").split(":")[0])
        h[k] = h.get(k, 0) + 1
    return h


def replay_program(rp):
    """True if the property-relevant expectation of a stored program replay holds on the real code"""
    import logging
    logging.disable(logging.CRITICAL)
    import pyqasm
    src = rp["source"]
    try:
        m = pyqasm.loads(src)
        m.validate()
        m2 = pyqasm.loads(src)
        m2.unroll(**({"external_gates": rp["external_gates"]} if rp.get("external_gates") else {}))
        if rp.get("expect") == "ValidationError":
            return False
        if "expect_ops" in rp:
            lines = [l.strip().rstrip(";") for l in pyqasm.dumps(m2).splitlines()]
            ops = [l for l in lines if l and not l.startswith(("OPENQASM", "include", "qubit", "bit"))]
            return ops == rp["expect_ops"]
        return True
    except pyqasm.ValidationError:
        return rp.get("expect") == "ValidationError"
    except Exception:
        return False


def replay_cmd(prop, path):
    """re-run one stored replay against the real code and the model"""
    import json
    r = json.load(open(path))
    chk = common.Check(prop, "quick", 0)
    if r.get("kind") == "program" or "source" in r:
        build_for(prop)
        run = LangRun([dict(src=r["source"], ext=r.get("external_gates"), family="replay")])
        print("implementation:", {k: run.outcomes[0].get(k) for k in ("load", "validate", "unroll", "nq", "nc", "depth")})
        print("model vs implementation:", langcorr.VERDICTS.get(run.verdicts[0]))
        if run.verdicts[0] not in (0, 9):
            chk.violation("replayed", r)
    else:
        print("replay kind not executable:", r.get("kind"), r.get("broken") or r.get("what"))
        chk.violation("replayed", r, no_input=True)
    return chk.finish()
