"""Parser for terms printed by `Eval vm_compute` (constructor applications, lists, tuples,
strings, Z / nat / float numerals).  A term is ('app', head, [args]) | ('list', [..]) |
('tuple', [..]) | ('str', s) | ('num', int|float)."""
import re

TOKEN = re.compile(r'''\s*(?:
    (?P<str>"(?:[^"]|"")*") |
    (?P<num>-?(?:0x[0-9a-fA-F.]+p[+-]?\d+|\d+\.?\d*(?:[eE][+-]?\d+)?)) |
    (?P<id>[A-Za-z_][A-Za-z0-9_.']*) |
    (?P<sym>[()\[\];,]) |
    (?P<scope>%[A-Za-z_]+)
)''', re.X)


def tokenize(s):
    pos, out = 0, []
    s = s.strip()
    while pos < len(s):
        m = TOKEN.match(s, pos)
        if not m:
            raise ValueError("cannot tokenize at %r" % s[pos:pos + 40])
        pos = m.end()
        if m.group("scope"):
            continue
        for k in ("str", "num", "id", "sym"):
            if m.group(k) is not None:
                out.append((k, m.group(k)))
                break
    return out


class P:
    def __init__(self, toks):
        self.t, self.i = toks, 0

    def peek(self):
        return self.t[self.i] if self.i < len(self.t) else (None, None)

    def next(self):
        tok = self.t[self.i]
        self.i += 1
        return tok

    def term(self):
        atoms = [self.atom()]
        while True:
            k, v = self.peek()
            if k is None or (k == "sym" and v in (")", "]", ";", ",")):
                break
            atoms.append(self.atom())
        if len(atoms) == 1:
            return atoms[0]
        head = atoms[0]
        if head[0] == "app" and not head[2]:
            return ("app", head[1], atoms[1:])
        return ("app", head, atoms[1:])

    def atom(self):
        k, v = self.next()
        if k == "str":
            return ("str", v[1:-1].replace('""', '"'))
        if k == "num":
            if v.startswith(("0x", "-0x")):
                return ("num", float.fromhex(v))
            if re.fullmatch(r"-?\d+", v):
                return ("num", int(v))
            return ("num", float(v))
        if k == "id":
            if v in ("infinity",):
                return ("num", float("inf"))
            if v in ("neg_infinity",):
                return ("num", float("-inf"))
            if v == "nan":
                return ("num", float("nan"))
            return ("app", v, [])
        if k == "sym" and v == "(":
            items = [self.term()]
            while self.peek() == ("sym", ","):
                self.next()
                items.append(self.term())
            assert self.next() == ("sym", ")")
            return items[0] if len(items) == 1 else ("tuple", items)
        if k == "sym" and v == "[":
            items = []
            if self.peek() != ("sym", "]"):
                items.append(self.term())
                while self.peek() == ("sym", ";"):
                    self.next()
                    items.append(self.term())
            assert self.next() == ("sym", "]")
            return ("list", items)
        raise ValueError("unexpected token %r" % (v,))


def parse(s):
    p = P(tokenize(s))
    t = p.term()
    if p.i != len(p.t):
        raise ValueError("trailing tokens")
    return t


# ---- conversion of flat statements (Ast.stmt terms) to the ops of flatsim ----
def pyval(t):
    assert t[0] == "app", t
    h, a = t[1], t[2]
    if h == "VInt":
        return int(a[0][1])
    if h == "VFloat":
        return float(a[0][1])
    if h == "VBool":
        return a[0][1] == "true"
    if h == "VNone":
        return None
    raise ValueError(h)


def qarg(t):
    h, a = t[1], t[2]
    if h == "QIdx":
        reg = a[0][1]
        idx = a[1][1][0]          # first index
        item = idx[2][0][1][0]    # IdxList [IExpr e]
        e = item[2][0]            # ELit v
        return (reg, pyval(e[2][0]))
    if h == "QId":
        return (a[0][1], None)
    raise ValueError(h)


def flat_stmt(t):
    h, a = t[1], t[2]
    if h == "SInclude":
        return ("include", a[0][1])
    if h == "SQubitDecl":
        size = pyval(a[1][2][0][2][0]) if a[1][1] == "Some" else 1
        return ("qreg", a[0][1], size)
    if h == "SClassicalDecl":
        ty = a[0]
        size = pyval(ty[2][0][2][0][2][0]) if ty[1] == "TBit" and ty[2][0][1] == "Some" else 1
        init = ()
        if a[2][1] == "Some":
            init = (("init", pyval(a[2][2][0][2][0])),)      # Some (ELit v)
        return ("creg", a[1][1], size) + init
    if h == "SGate":
        mods = [m[1] for m in a[0][1]]
        args = [pyval(x[2][0]) for x in a[2][1]]
        return ("gate", a[1][1], args, [qarg(q) for q in a[3][1]], mods)
    if h == "SPhase":
        return ("gphase", pyval(a[1][2][0]), [qarg(q) for q in a[2][1]])
    if h == "SMeasure":
        return ("measure", qarg(a[0]), qarg(a[1][2][0]))
    if h == "SReset":
        return ("reset", qarg(a[0]))
    if h == "SBarrier":
        return ("barrier", [qarg(q) for q in a[0][1]])
    if h == "SIf":
        c = a[0]                      # EBin "==" lhs rhs
        lhs, rhs = c[2][1], c[2][2]
        if lhs[1] == "EIndexE":
            reg = lhs[2][0][2][0][1]
            i = pyval(lhs[2][1][2][0][1][0][2][0][2][0])
        else:
            reg, i = lhs[2][0][1], None
        return ("if", (reg, i, pyval(rhs[2][0])), [flat_stmt(x) for x in a[1][1]], [flat_stmt(x) for x in a[2][1]])
    raise ValueError("not a flat statement: %s" % h)
