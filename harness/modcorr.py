"""Module-API histories: run a call sequence on real pyqasm modules and on the abstract machine
(coq/Module/ModuleSpec.v, evaluated by coqc) and compare every output."""
import os
import random
import re
import subprocess
import time

import common
import ir

QUERIES = ["validate", "unroll", "depth", "num_qubits", "num_clbits", "has_measurements", "has_barriers", "dumps"]
TRANSFORMS = ["remove_measurements", "remove_barriers", "remove_includes", "populate_idle_qubits",
              "remove_idle_qubits", "reverse_qubit_order"]
OBSERVERS = ["dumps", "num_qubits", "num_clbits", "has_measurements", "has_barriers", "depth"]

COQ_OP = {"validate": "OValidate", "unroll": "OUnroll", "depth": "ODepth", "num_qubits": "ONumQ", "num_clbits": "ONumC",
          "has_measurements": "OHasM", "has_barriers": "OHasB", "dumps": "ODumps", "copy": "OCopy", "to_qasm3": "OToQasm3"}
COQ_TR = {"remove_measurements": "ORemove KMeas %s", "remove_barriers": "ORemove KBarr %s", "remove_includes": "ORemove KIncl %s",
          "populate_idle_qubits": "OPopulate %s", "remove_idle_qubits": "ORemoveIdle %s", "reverse_qubit_order": "OReverse %s"}


def op_term(op):
    name = op[1]
    if name in COQ_OP:
        return "(%d%%nat, %s)" % (op[0], COQ_OP[name])
    return "(%d%%nat, %s)" % (op[0], COQ_TR[name] % ("true" if op[2] else "false"))


def op_text(op):
    if op[1] in COQ_TR:
        return "m%d.%s(in_place=%s)" % (op[0], op[1], op[2])
    return "m%d.%s" % (op[0], op[1])


def random_history(rnd, length, two_modules=True, transforms=TRANSFORMS, queries=QUERIES, p_transform=0.45):
    """ops: (module index, name[, in_place]); modules created by copy / in_place=False get the next index"""
    h = []
    nmod = 1
    for _ in range(length):
        i = rnd.randrange(nmod)
        if rnd.random() < p_transform:
            name = rnd.choice(transforms)
            inpl = (rnd.random() < 0.7) if two_modules else True
            h.append((i, name, inpl))
            if not inpl:
                nmod += 1
        elif two_modules and rnd.random() < 0.08:
            h.append((i, "copy"))
            nmod += 1
        else:
            h.append((i, rnd.choice(queries)))
    return h, nmod


def observation_suffix(rnd, nmod):
    out = []
    for i in range(nmod):
        obs = list(OBSERVERS)
        rnd.shuffle(obs)
        out += [(i, o) for o in obs]
    return out


def program_in_envelope(flat_stmts):
    """module-history programs: (1) no qubit-restricted gphase and (2) no conditional with an empty
    if-block in the unrolled output (neither re-loads: known findings of C03), (3) at least one gate
    at top level (an empty unrolled program is indistinguishable from 'not unrolled')"""
    import openqasm3.ast as qa

    def bad(stmts):
        for x in stmts:
            if isinstance(x, qa.QuantumPhase) and x.qubits:
                return True
            if isinstance(x, qa.BranchingStatement):
                if not x.if_block or bad(x.if_block) or bad(x.else_block):
                    return True
        return False
    return not bad(flat_stmts) and any(isinstance(x, qa.QuantumGate) for x in flat_stmts)


def exc_class(e):
    import pyqasm
    return "XErrV" if isinstance(e, pyqasm.ValidationError) else "XErrI"


def run_real(src, hist):
    """returns list of (xout term, printable) aligned with hist; stops nothing: every call is attempted"""
    import logging
    logging.disable(logging.CRITICAL)
    import pyqasm
    mods = [pyqasm.loads(src)]
    outs = []
    run_real.frames = []

    def texts():
        out = []
        for mm in mods:
            try:
                out.append(None if mm is None else pyqasm.dumps(mm))
            except Exception as e:
                out.append("<%s>" % type(e).__name__)
        return out
    before = texts()
    for k, op in enumerate(hist):
        if k:
            # frame: a call on module i leaves the printed program of every OTHER module exactly as it was
            after = texts()
            prev = hist[k - 1]
            pi = prev[0]
            # ... and a call that returns a new module (copy, in_place=False) leaves its own receiver as it was, too
            keeps_receiver = prev[1] in ("copy", "to_qasm3") or (len(prev) > 2 and not prev[2])
            for j, (a, b) in enumerate(zip(before, after)):
                if (j != pi or keeps_receiver) and a != b and len(run_real.frames) < 3:
                    run_real.frames.append({"after_call": k - 1, "call": list(hist[k - 1]), "changed_module": j, "before": a, "after": b})
            before = after
        i, name = op[0], op[1]
        if i >= len(mods):
            outs.append(("XSkip", "no module"))
            continue
        m = mods[i]
        try:
            if name == "dumps":
                text = pyqasm.dumps(m)
                try:
                    r = pyqasm.loads(text)
                    r.unroll()
                    outs.append(("(XProg %s)" % ir.clist([ir.stmt(s) for s in r.unrolled_ast.statements]), text))
                except Exception as e:
                    outs.append((exc_class(e), "dumped text does not re-load/unroll: %s: %s\n%s" % (type(e).__name__, str(e)[:100], text)))
            elif name in ("num_qubits", "num_clbits"):
                outs.append(("(XZ %s)" % ir.cZ(getattr(m, name)), getattr(m, name)))
            elif name in ("has_measurements", "has_barriers"):
                v = getattr(m, name)()
                outs.append(("(XB %s)" % ("true" if v else "false"), v))
            elif name == "depth":
                v = m.depth()
                outs.append(("(XZ %s)" % ir.cZ(v), v))
            elif name in ("validate", "unroll"):
                getattr(m, name)()
                outs.append(("XUnit", None))
            elif name == "copy":
                mods.append(m.copy())
                outs.append(("XNew", None))
            elif name == "to_qasm3":
                mods.append(m.to_qasm3())           # AttributeError on a version-3 module
                outs.append(("XNew", None))
            else:
                inpl = op[2]
                r = getattr(m, name)(in_place=inpl)
                if not inpl:
                    mods.append(r)
                    outs.append(("XNew", None))
                else:
                    outs.append(("XUnit", None))
        except ir.Unconvertible as e:
            outs.append(("XSkip", "unconvertible %s" % e))
        except RecursionError:
            outs.append(("XErrI", "RecursionError"))
        except Exception as e:
            outs.append((exc_class(e), "%s: %s" % (type(e).__name__, str(e)[:150])))
            # a call that fails creates no module (the abstract machine numbers modules the same way)
    return outs


def _worker(args):
    import copy
    import logging
    logging.disable(logging.CRITICAL)
    import pyqasm
    src, hist = args
    try:
        m = pyqasm.loads(src)
        prog = ir.program(copy.deepcopy(m.original_program))
        q2 = type(m).__name__ == "Qasm2Module"
    except Exception as e:
        return None
    try:
        outs = run_real(src, hist)
    except Exception as e:   # harness problem, e.g. module index None
        return {"prog": prog, "q2": q2, "outs": None, "error": "%s: %s" % (type(e).__name__, e)}
    return {"prog": prog, "q2": q2, "outs": outs, "frames": list(getattr(run_real, "frames", []))}


HEADER = ("From Coq Require Import ZArith List String PrimFloat.\n"
          "From Verif Require Import BGate PyVal Ast State Unroll Corr Transforms ModuleSpec.\n"
          "Import ListNotations.\nOpen Scope string_scope.\n")


def evaluate(cases, shard=60, tag="hist"):
    """cases: list of (src, hist). returns (codes, real_results, errors): code 0 agree, k+1 first disagreement at call k,
    999 machine silent, None not evaluated"""
    import multiprocessing
    with multiprocessing.Pool(min(common.NPROC, 12)) as pool:
        real = pool.map(_worker, cases, chunksize=8)
    d = common.run_dir()
    terms, idx = [], []
    for i, (c, r) in enumerate(zip(cases, real)):
        if r is None or r["outs"] is None:
            continue
        terms.append("(check_history %s %s %s %s)" % ("true" if r["q2"] else "false", r["prog"],
                                                       ir.clist([op_term(o) for o in c[1]]),
                                                       ir.clist([o[0] for o in r["outs"]])))
        idx.append(i)
    files = []
    for k in range(0, len(terms), shard):
        f = os.path.join(d, "%s_%d.v" % (tag, k // shard))
        with open(f, "w") as fh:
            fh.write(HEADER)
            fh.write("Eval vm_compute in\n [%s].\n" % ";\n  ".join(terms[k:k + shard]))
        files.append(f)
    codes = [None] * len(cases)
    errors = []
    procs, pending, results = [], list(enumerate(files)), {}
    while pending or procs:
        while pending and len(procs) < common.NPROC:
            k, f = pending.pop(0)
            procs.append((k, f, subprocess.Popen(["timeout", "900", "coqc", "-Q", common.COQ, "Verif", f],
                                                 stdout=subprocess.PIPE, stderr=subprocess.PIPE, text=True)))
        still = []
        for k, f, p in procs:
            if p.poll() is None:
                still.append((k, f, p))
            else:
                so, se = p.communicate()
                results[k] = (p.returncode, so, se)
        procs = still
        if procs:
            time.sleep(0.05)
    for k, f in enumerate(files):
        rc, so, se = results[k]
        chunk = idx[k * shard:(k + 1) * shard]
        if rc != 0:
            errors.append((f, se[-600:]))
            continue
        nums = [int(x) for x in re.findall(r"\d+", so.split("= [")[1].split("]")[0])] if "= [" in so else []
        if len(nums) != len(chunk):
            errors.append((f, "parsed %d codes for %d cases" % (len(nums), len(chunk))))
            continue
        for i, c in zip(chunk, nums):
            codes[i] = c
    return codes, real, errors


def machine_outputs(src_prog_term, q2, hist):
    """ask Coq for the machine's own outputs (for replay files)"""
    d = common.run_dir()
    f = os.path.join(d, "machine_out.v")
    with open(f, "w") as fh:
        fh.write(HEADER)
        fh.write("Eval vm_compute in (snd (run [mkMS %s false %s] %s)).\n" % (src_prog_term, "true" if q2 else "false",
                                                                               ir.clist([op_term(o) for o in hist])))
    p = subprocess.run(["timeout", "300", "coqc", "-Q", common.COQ, "Verif", f], capture_output=True, text=True)
    return (p.stdout or p.stderr)[-3000:]
