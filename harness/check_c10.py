"""C10: qubit/bit counts and has_* flags always describe the current program."""
import modcheck
import modcorr

PROP = "C10"
FLAGQ = ["num_qubits", "num_clbits", "has_measurements", "has_barriers"]


def flag_shape_programs():
    """a measurement / barrier in every kind of container, after every kind of block that does not hold one"""
    pre = 'OPENQASM 3.0;\ninclude "stdgates.inc";\nqubit[3] q;\nbit[3] c;\nint[8] sw = 1;\nh q[0];\n'
    targets = {"measure": "c[0] = measure q[0];", "barrier": "barrier q[1];"}
    containers = ["%s", "if (sw == 1) { %s }", "if (sw == 2) { x q[2]; } else { %s }", "for int i in [0:1] { %s }",
                  "switch (sw) { case 1 { %s } default { x q[2]; } }", "switch (sw) { case 5 { x q[2]; } default { %s } }",
                  "for int i in [0:1] { if (i == 0) { %s } }", "switch (sw) { case 1 { for int j in [0:0] { %s } } default { x q[2]; } }",
                  "for int i in [0:0] { switch (sw) { case 1 { %s } default { x q[2]; } } }"]
    out = []
    for kind, t in targets.items():
        other = targets["barrier" if kind == "measure" else "measure"].replace("q[0]", "q[2]").replace("c[0]", "c[2]")
        decoys = ["", "if (sw == 1) { x q[2]; }", "for int k in [0:1] { x q[2]; }", "switch (sw) { case 1 { x q[2]; } default { y q[2]; } }",
                  "switch (sw) { case 1 { %s } default { y q[2]; } }" % other]
        for cont in containers:
            for d in decoys:
                out.append(pre + (d + "\n" if d else "") + (cont % t) + "\nx q[1];\n")
    return out


def dead_code_programs():
    """the only measurement / barrier sits in code that never runs (uncalled subroutine, zero-iteration loop,
    untaken compile-time branch): the text contains it, the unrolled program does not"""
    pre = 'OPENQASM 3.0;\ninclude "stdgates.inc";\nqubit[3] q;\nbit[3] c;\nint[8] sw = 1;\n'
    out = []
    for t in ("c[0] = measure q[0];", "barrier q[1];", "c[1] = measure q[1]; barrier q;"):
        out.append(pre + "def never(qubit a) { %s }\nh q[0];\nx q[1];\n" % t.replace("q[0]", "a").replace("q[1]", "a").replace(" q;", " a;").replace("c[0] = ", "").replace("c[1] = ", ""))
        out.append(pre + "h q[0];\nfor int i in [1:0] { %s }\nx q[1];\n" % t)
        out.append(pre + "h q[0];\nif (sw == 2) { %s }\nx q[1];\n" % t)
        out.append(pre + "h q[0];\nswitch (sw) { case 3 { %s } default { x q[2]; } }\n" % t)
    return out


def cached_flag_histories(rnd):
    """a flag answered from the text, then (optionally) a transformation, then unroll(): the answer must follow"""
    out = []
    for src in dead_code_programs():
        for mid in ([], [(0, "remove_includes", True)], [(0, "populate_idle_qubits", True)], [(0, "validate")], [(0, "depth")],
                    [(0, "remove_includes", False)], [(0, "copy")]):
            body = [(0, "has_measurements"), (0, "has_barriers")] + mid + [(0, "unroll"), (0, "has_measurements"), (0, "has_barriers")]
            nmod = 1 + sum(1 for o in mid if o[1] == "copy" or (len(o) > 2 and not o[2]))
            if nmod > 1:
                body += [(1, "unroll"), (1, "has_measurements"), (1, "has_barriers")]
            hist, nobs = modcheck.hist_with_obs(rnd, body, nmod)
            out.append(dict(src=src, hist=hist, nobs=nobs, family="flag-cached-then-unrolled"))
    return out


def make_cases(rnd, tier, progs):
    n = 600 if tier == "quick" else 8000
    ps = progs(100 if tier == "quick" else 500) + flag_shape_programs()
    out = []
    for k in range(n):
        src = ps[k % len(ps)]
        body = []
        nmod = 1
        # counts/flags queried (twice) before and after every transformation, on every module
        for _ in range(rnd.randint(1, 4)):
            i = rnd.randrange(nmod)
            body += [(i, rnd.choice(FLAGQ)), (i, rnd.choice(FLAGQ))]
            if rnd.random() < 0.8:
                t = rnd.choice(modcorr.TRANSFORMS)
                inpl = rnd.random() < 0.75
                body.append((i, t, inpl))
                if not inpl:
                    nmod += 1
            else:
                body.append((i, rnd.choice(["validate", "unroll", "depth", "dumps"])))
            body.append((rnd.randrange(nmod), rnd.choice(FLAGQ)))
        hist, nobs = modcheck.hist_with_obs(rnd, body, nmod)
        out.append(dict(src=src, hist=hist, nobs=nobs, family="flags-around-transformations" if "int[8] sw = 1;\nh q[0];" not in src else "flags-in-every-container"))
    # every transformation, in both modes, on every structured program: all four answers on every module afterwards
    for src in modcheck.FIXED_PROGRAMS:
        for t in modcorr.TRANSFORMS:
            for inpl in (True, False):
                body = [(0, t, inpl)]
                nmod = 1 if inpl else 2
                for i in range(nmod):
                    body += [(i, q) for q in FLAGQ]
                hist, nobs = modcheck.hist_with_obs(rnd, body, nmod)
                out.append(dict(src=src, hist=hist, nobs=nobs, family="answers-after-each-transformation"))
    return out + cached_flag_histories(rnd)


def run(tier, seed, replay):
    if replay:
        return modcheck.replay_cmd(PROP, replay)
    return modcheck.run(PROP, tier, seed, make_cases)
