"""C10: qubit/bit counts and has_* flags always describe the current program."""
import modcheck
import modcorr

PROP = "C10"
FLAGQ = ["num_qubits", "num_clbits", "has_measurements", "has_barriers"]


def make_cases(rnd, tier, progs):
    n = 220 if tier == "quick" else 3000
    ps = progs(40 if tier == "quick" else 200)
    out = []
    for k in range(n):
        src = ps[k % len(ps)]
        body = []
        nmod = 1
        # counts/flags queried (twice) before and after every transformation, on every module
        for _ in range(rnd.randint(1, 4)):
            i = rnd.randrange(nmod)
            body += [(i, rnd.choice(FLAGQ)), (i, rnd.choice(FLAGQ))]
            if rnd.random() < 0.8:
                t = rnd.choice(modcorr.TRANSFORMS)
                inpl = rnd.random() < 0.75
                body.append((i, t, inpl))
                if not inpl:
                    nmod += 1
            else:
                body.append((i, rnd.choice(["validate", "unroll", "depth", "dumps"])))
            body.append((rnd.randrange(nmod), rnd.choice(FLAGQ)))
        hist, nobs = modcheck.hist_with_obs(rnd, body, nmod)
        out.append(dict(src=src, hist=hist, nobs=nobs, family="flags-around-transformations"))
    return out


def run(tier, seed, replay):
    if replay:
        return modcheck.replay_cmd(PROP, replay)
    return modcheck.run(PROP, tier, seed, make_cases)
