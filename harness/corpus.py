"""Programs from the repository's own tests (string constants and resource files), never run
as tests: only parsed out."""
import ast
import os

import common


def repo_test_programs():
    progs = []
    troot = os.path.join(common.REPO, "tests")
    for d, _, fs in sorted(os.walk(troot)):
        for f in sorted(fs):
            p = os.path.join(d, f)
            if f.endswith(".qasm"):
                progs.append((os.path.relpath(p, common.REPO), open(p).read()))
            elif f.endswith(".py"):
                try:
                    tree = ast.parse(open(p).read())
                except SyntaxError:
                    continue
                k = 0
                for node in ast.walk(tree):
                    if isinstance(node, ast.Constant) and isinstance(node.value, str) and "OPENQASM" in node.value:
                        progs.append(("%s#%d" % (os.path.relpath(p, common.REPO), k), node.value))
                        k += 1
    seen, out = set(), []
    for name, src in progs:
        if src not in seen:
            seen.add(src)
            out.append((name, src))
    return out
