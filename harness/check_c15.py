"""C15: in_place=False and copy() never disturb the original module."""
import modcheck
import modcorr

PROP = "C15"
PREFIXES = [[], ["validate"], ["unroll"], ["depth"], ["unroll", "has_barriers"], ["num_qubits"]]


def make_cases(rnd, tier, progs):
    n = 500 if tier == "quick" else 8000
    ps = progs(100 if tier == "quick" else 600)
    out = []
    for k in range(n):
        src = ps[k % len(ps)]
        body = [(0, q) for q in rnd.choice(PREFIXES)]
        # a module-creating call, then further calls on either module (each may again create a module)
        nmod = 1
        first = rnd.choice(modcorr.TRANSFORMS + ["copy"])
        body.append((0, "copy") if first == "copy" else (0, first, False))
        nmod = 2
        for _ in range(rnd.randint(0, 3)):
            i = rnd.randrange(nmod)
            r = rnd.random()
            if r < 0.55:
                inpl = rnd.random() < 0.7
                body.append((i, rnd.choice(modcorr.TRANSFORMS), inpl))
                if not inpl:
                    nmod += 1
            elif r < 0.65:
                body.append((i, "copy"))
                nmod += 1
            else:
                body.append((i, rnd.choice(modcorr.QUERIES)))
        hist, nobs = modcheck.hist_with_obs(rnd, body, nmod)
        out.append(dict(src=src, hist=hist, nobs=nobs, family="two-modules"))
    # every transformation with in_place=False on every structured program, then the result transformed again in place
    out += modcheck.enumerated(rnd, modcorr.TRANSFORMS, "not-in-place-on-every-structured-program", modes=(False,),
                               before=((), ("unroll",), ("has_measurements", "depth")),
                               after=((), ("remove_idle_qubits",), ("reverse_qubit_order",), ("unroll",)))
    out += modcheck.conversion_histories(rnd, "to_qasm3-then-both-modules")
    return out


def run(tier, seed, replay):
    if replay:
        return modcheck.replay_cmd(PROP, replay)
    return modcheck.run(PROP, tier, seed, make_cases)
