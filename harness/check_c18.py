"""C18: external_gates keeps the named gates opaque and changes nothing else."""
import itertools
import random
import re

import flatsim
import gen
import langcheck

PROP = "C18"
GATE_DEF = re.compile(r"^gate\s+(\w+)[^{]*\{[^}]*\}\s*$", re.M)


def random_external_programs(rnd, n):
    out = []
    prof = dict(gates=6, mods=4, measure=1, reset=1, barrier=1, if_ct=1, if_meas=1, for_=2, switch=0, alias=1, assign=0, decl=1,
                call=2, custom=5, phase=0, gate_phase=False)
    tries = 0
    while len(out) < n and tries < 20 * n:
        tries += 1
        g = gen.G(rnd, prof)
        src = g.program(nstmts=rnd.randint(4, 9))[0]
        names = sorted(set(list(g.gates) + re.findall(r"(?m)^\s*(?:(?:inv|pow\(-?\d+\)) @ )*([A-Za-z_]\w*)(?:\(|\s)", src)))
        names = [x for x in names if x in g.gates or x in gen.LIB]
        if not names:
            continue
        k = rnd.randint(1, min(3, len(names)))
        out.append((src, rnd.sample(names, k)))
    return out


def cases(tier, seed):
    rnd = random.Random(seed)
    out = []
    for src, E in gen.external_cases(rnd):
        out.append(dict(src=src, ext=E, family="all-subsets"))
    for src, E in random_external_programs(rnd, 150 if tier == "quick" else 3000):
        out.append(dict(src=src, ext=E, family="random-programs"))
    return out


def classify(run, i, model):
    o = run.outcomes[i]
    v = run.verdicts[i]
    if model is None or model[0] == "unparsed":
        return None
    if v in (1, 2):
        return ("outcome", {"kind": "program", "what": "unroll(external_gates=E) accepts/rejects differently from the modelled treatment",
                            "model": model[0] if model[0] != "ok" else "accepted"})
    if o.get("unroll") == "ok" and model[0] == "ok" and o.get("ops") is not None and o["ops"] != model[1]:
        k = next((j for j, (a, b) in enumerate(zip(o["ops"], model[1])) if a != b), min(len(o["ops"]), len(model[1])))
        return ("kept", {"kind": "program", "what": "emitted statements differ (kept call shape, split, repetitions, inv) from the modelled external-gate path",
                         "first_difference_at": k, "expected": str(model[1][k:k + 2]), "got": str(o["ops"][k:k + 2])})
    return None


def _plain_and_external(args):
    import logging
    logging.disable(logging.CRITICAL)
    import pyqasm
    src, E = args
    res = {}
    try:
        m = pyqasm.loads(src)
        m.unroll()
        res["plain"] = flatsim.from_ast(m.unrolled_ast.statements, strict=False)
    except pyqasm.ValidationError:
        res["plain"] = "validation"
    except Exception as e:
        res["plain"] = "internal:" + type(e).__name__
    try:
        m = pyqasm.loads(src)
        m.unroll(external_gates=list(E))
        kept = pyqasm.dumps(m)
        res["kept_text"] = kept
        # substitute the definitions: put the source's gate definitions back in front of the kept program
        defs = "\n".join(mm.group(0) for mm in GATE_DEF.finditer(src))
        lines = kept.split("\n")
        head = [l for l in lines if l.startswith(("OPENQASM", "include"))]
        body = [l for l in lines if not l.startswith(("OPENQASM", "include"))]
        text = "\n".join(head) + "\n" + defs + "\n" + "\n".join(body)
        r = pyqasm.loads(text)
        r.unroll()
        res["subst"] = flatsim.from_ast(r.unrolled_ast.statements, strict=False)
    except pyqasm.ValidationError as e:
        res["subst"] = "validation: %s" % str(e)[:100]
    except Exception as e:
        res["subst"] = "internal:%s %s" % (type(e).__name__, str(e)[:100])
    # the option belongs to the call: the same module (and a copy of it) unrolled afterwards without it gives the
    # plain unrolling, and a module unrolled plainly first gives the kept program when asked with it afterwards
    if "kept_text" in res and not isinstance(res.get("plain"), str):
        try:
            m0 = pyqasm.loads(src)
            m0.unroll()
            plain_text = pyqasm.dumps(m0)
            m1 = pyqasm.loads(src)
            m1.unroll(external_gates=list(E))
            c1 = m1.copy()
            m1.unroll()
            c1.unroll()
            m2 = pyqasm.loads(src)
            m2.unroll()
            m2.unroll(external_gates=list(E))
            m3 = pyqasm.loads(src)
            m3.unroll(external_gates=list(E))
            m3.unroll(external_gates=[])
            seq = {"unroll(external_gates=E); unroll()": pyqasm.dumps(m1) == plain_text,
                   "unroll(external_gates=E); copy().unroll()": pyqasm.dumps(c1) == plain_text,
                   "unroll(); unroll(external_gates=E)": pyqasm.dumps(m2) == res["kept_text"],
                   "unroll(external_gates=E); unroll(external_gates=[])": pyqasm.dumps(m3) == plain_text}
            res["sequence_failures"] = [k for k, ok in seq.items() if not ok]
        except Exception as e:
            res["sequence_failures"] = ["%s: %s" % (type(e).__name__, str(e)[:100])]
    return res


def direct(run, chk):
    """oracle on the real code alone: replacing each kept call by the gate's definition (re-unrolling the kept
    program with the definitions put back) yields the plain unroll() of the source"""
    import multiprocessing
    jobs = [(c["src"], c["ext"]) for c in run.cases]
    with multiprocessing.Pool(12) as pool:
        res = pool.map(_plain_and_external, jobs, chunksize=10)
    nbad, checked = 0, 0
    for (src, E), r in zip(jobs, res):
        if r.get("sequence_failures") and nbad < 4:
            nbad += 1
            chk.violation("sequence_%d" % nbad, {"kind": "script", "source": src, "external_gates": E, "failing_sequences": r["sequence_failures"],
                                                 "what": "external_gates given to one unroll() call influences (or is ignored by) another call on the same module or its copy"})
        if isinstance(r.get("plain"), str):
            # plain unroll rejects: the kept version must reject too (still validated)
            if not isinstance(r.get("subst"), str) and nbad < 4:
                nbad += 1
                chk.violation("accepts_%d" % nbad, {"kind": "program", "source": src, "external_gates": E,
                                                    "what": "unroll() rejects the program but unroll(external_gates=E) accepts it"})
            continue
        if isinstance(r.get("subst"), str) and "kept_text" in r and \
                ("Qubit arguments not allowed for phase operation" in r["subst"] or "Missing if block" in r["subst"]):
            continue      # envelope: the kept program does not re-load for the two known C03 reasons
        if isinstance(r.get("subst"), str):
            if r["subst"].startswith("validation") and "kept_text" not in r:
                # rejected under E although accepted plainly
                nbad += 1
                if nbad <= 4:
                    chk.violation("rejects_%d" % nbad, {"kind": "program", "source": src, "external_gates": E,
                                                        "what": "unroll(external_gates=E) rejects a program unroll() accepts: " + r["subst"]})
            elif nbad < 4:
                nbad += 1
                chk.violation("reload_%d" % nbad, {"kind": "program", "source": src, "external_gates": E, "kept_program": r.get("kept_text"),
                                                   "what": "the kept program with the definitions substituted does not unroll: " + r["subst"]})
            continue
        checked += 1
        if r["subst"] != r["plain"]:
            try:
                eq, why = flatsim.process_equal(r["subst"], r["plain"])
            except flatsim.TooBig:
                eq, why = True, ""
            if not eq and nbad < 4:
                nbad += 1
                chk.violation("meaning_%d" % nbad, {"kind": "program", "source": src, "external_gates": E, "kept_program": r.get("kept_text"),
                                                    "what": "substituting the definitions into the kept program does not give the meaning of the source: " + why})
    direct.checked = checked


def run(tier, seed, replay):
    if replay:
        return langcheck.replay_cmd(PROP, replay)
    direct.checked = 0
    return langcheck.standard(PROP, tier, seed, cases(tier, seed), classify, direct=direct,
                              extra_cov=lambda run: {"substitution_oracle_checked": direct.checked,
                                                     "subsets": sorted(set(len(c["ext"]) for c in run.cases))})
