"""C02: every operation lands on exactly the qubits and bits the source designates."""
import random

import flatsim
import gen
import langcheck

PROP = "C02"


def cases(tier, seed):
    rnd = random.Random(seed)
    out = []
    for s in gen.index_form_cases(3 if tier == "quick" else 5):
        out.append(dict(src=s, family="index-forms"))
    for s in gen.broadcast_cases():
        out.append(dict(src=s, family="broadcast"))
    for s in gen.subroutine_arg_cases(3 if tier == "quick" else 5):
        out.append(dict(src=s, family="subroutine-args"))
    for s in gen.loop_slice_cases():
        out.append(dict(src=s, family="loop-dependent-slices"))
    for s in gen.sub_body_block_cases():
        out.append(dict(src=s, family="subroutine-body-blocks"))
    for s in gen.repeated_call_cases():
        if "p1(" in s or "f(q[0:2], i)" in s:      # calls that act on qubits as operands of one expression: per-bit order
            out.append(dict(src=s, family="subroutine-results-as-operands"))
    n = 250 if tier == "quick" else 3000
    prof = dict(basis_only=True, mods=0, phase=0, custom=0, alias=3, call=3, for_=3, gates=8)
    for _ in range(n):
        out.append(dict(src=gen.random_program(rnd, prof)[0], family="random-basis"))
    prof2 = dict(basis_only=True, mods=0, phase=0, custom=3, alias=2, call=4, for_=3, gates=6)
    for _ in range(n // 2):
        g = gen.G(rnd, prof2)
        g.p["basis_only"] = True
        out.append(dict(src=g.program()[0], family="random-subroutines"))
    return out


def classify(run, i, model):
    """does the real output put an operation on other bits than the original/model does?"""
    o = run.outcomes[i]
    v = run.verdicts[i]
    if o.get("unroll") != "ok" or model is None or model[0] != "ok":
        return None
    if o.get("ops") is None:
        return None
    real = flatsim.per_bit_sequences(o["ops"])
    ref = flatsim.per_bit_sequences(model[1])
    if real != ref:
        bits = sorted(set(real) ^ set(ref)) or sorted(k for k in real if real[k] != ref.get(k))
        return ("operands", {"kind": "program", "what": "per-bit operation sequences differ from the designated ones",
                             "bits": [str(b) for b in bits[:6]],
                             "expected_for_first_bit": str(ref.get(bits[0]))[:300] if bits else None,
                             "got_for_first_bit": str(real.get(bits[0]))[:300] if bits else None})
    return None


def run(tier, seed, replay):
    if replay:
        return langcheck.replay_cmd(PROP, replay)
    def direct(run, chk):
        # the whole-program theorem (Lang/BroadcastProofs.v: operands on whole registers act bit by bit) on every case it applies to
        direct.expansion = langcheck.expansion_oracle(run, chk)
    return langcheck.standard(PROP, tier, seed, cases(tier, seed) + [dict(src=s, family="whole-register-operands") for s in gen.loop_fragment_cases(random.Random(seed + 5), 80 if tier == "quick" else 1500)],
                              classify, direct=direct,
                              extra_cov=lambda run: {"whole_program_theorem_judgement_on_real_programs": getattr(direct, "expansion", {})})
