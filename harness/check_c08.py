"""C08: control flow executes and names resolve as the language prescribes."""
import random
import re

import flatsim
import gen
import langcheck

PROP = "C08"
LOOP_RE = re.compile(r"for int i in \[(-?\d+):(?:(-?\d+):)?(-?\d+)\] \{ rx\(i\) q\[0\]; \}")


def cases(tier, seed):
    rnd = random.Random(seed)
    out = []
    for s in gen.loop_range_cases():
        out.append(dict(src=s, family="loop-ranges"))
    for s in gen.scope_cases():
        out.append(dict(src=s, family="scope-shapes"))
    for s in gen.repeated_call_cases():
        out.append(dict(src=s, family="repeated-calls"))
    n = 250 if tier == "quick" else 3000
    prof = dict(for_=5, if_ct=4, switch=3, assign=4, decl=4, call=4, gates=4, mods=0, depth=3, custom=2)
    for _ in range(n):
        out.append(dict(src=gen.random_program(rnd, prof)[0], family="random-control"))
    m = 0
    for s in gen.array_cases(rnd, 500 if tier == "quick" else 6000):
        if "def f(" in s:
            out.append(dict(src=s, family="array-arguments"))
            m += 1
    return out


def classify(run, i, model):
    """control-flow / scoping families: any observable difference from the modelled behaviour"""
    o = run.outcomes[i]
    v = run.verdicts[i]
    if model is None or model[0] == "unparsed":
        return None
    if v in (1, 2):
        return ("outcome", {"kind": "program", "what": "accept/reject outcome differs from the language-prescribed one",
                            "model": model[0] if model[0] != "ok" else "accepted"})
    if o.get("unroll") == "ok" and model[0] == "ok":
        real = o.get("ops")
        if real is None:
            return ("notflat", {"kind": "program", "what": "output is not flat: %s" % o.get("notflat")})
        if real != model[1]:
            k = next((j for j, (a, b) in enumerate(zip(real, model[1])) if a != b), min(len(real), len(model[1])))
            return ("ops", {"kind": "program", "what": "emitted operations differ (iteration count, branch taken or value of a name)",
                            "first_difference_at": k, "expected": str(model[1][k:k + 2]), "got": str(real[k:k + 2])})
    return None


def direct(run, chk):
    """independent oracle for loop ranges: the inclusive arithmetic progression"""
    bad = 0
    for cs, o in zip(run.cases, run.outcomes):
        if cs["family"] != "loop-ranges":
            continue
        m = LOOP_RE.search(cs["src"])
        if not m:
            continue
        a, s, b = int(m.group(1)), (int(m.group(2)) if m.group(2) is not None else 1), int(m.group(3))
        if s == 0:
            continue
        exp, x = [], a
        while (s > 0 and x <= b) or (s < 0 and x >= b):
            exp.append(x)
            x += s
        if o.get("unroll") != "ok":
            chk.violation("loop_rejected_%d" % bad, {"kind": "program", "source": cs["src"], "what": "valid loop rejected", "outcome": o.get("unroll")})
            bad += 1
            continue
        got = [g[2][0] for g in (o.get("ops") or []) if g[0] == "gate"]
        if got != exp:
            chk.violation("loop_values_%d" % bad, {"kind": "program", "source": cs["src"], "what": "loop iteration values", "expected": exp, "got": got})
            bad += 1
        if bad > 5:
            break


def run(tier, seed, replay):
    if replay:
        return langcheck.replay_cmd(PROP, replay)
    return langcheck.standard(PROP, tier, seed, cases(tier, seed), classify, direct=direct)
