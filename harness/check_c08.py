"""C08: control flow executes and names resolve as the language prescribes."""
import random
import re

import flatsim
import gen
import langcheck

PROP = "C08"
LOOP_RE = re.compile(r"for int i in \[(-?\d+):(?:(-?\d+):)?(-?\d+)\] \{ rx\(i\) q\[0\]; \}")


def cases(tier, seed):
    rnd = random.Random(seed)
    out = []
    for s in gen.loop_range_cases():
        out.append(dict(src=s, family="loop-ranges"))
    for s in gen.scope_cases():
        out.append(dict(src=s, family="scope-shapes"))
    for s in gen.repeated_call_cases():
        out.append(dict(src=s, family="repeated-calls"))
    n = 250 if tier == "quick" else 3000
    prof = dict(for_=5, if_ct=4, switch=3, assign=4, decl=4, call=4, gates=4, mods=0, depth=3, custom=2)
    for _ in range(n):
        out.append(dict(src=gen.random_program(rnd, prof)[0], family="random-control"))
    for s in gen.strided_slice_cases():
        if "def f(" in s:       # views of strided / inner-axis selections passed by reference and written through
            out.append(dict(src=s, family="array-arguments-strided-views"))
    for s in gen.loop_fragment_cases(random.Random(seed + 77), 150 if tier == "quick" else 2500):
        out.append(dict(src=s, family="loop-fragment"))
    m = 0
    for s in gen.array_cases(rnd, 500 if tier == "quick" else 6000):
        if "def f(" in s:
            out.append(dict(src=s, family="array-arguments"))
            m += 1
    return out


def classify(run, i, model):
    """control-flow / scoping families: any observable difference from the modelled behaviour"""
    o = run.outcomes[i]
    v = run.verdicts[i]
    if model is None or model[0] == "unparsed":
        return None
    if v in (1, 2):
        return ("outcome", {"kind": "program", "what": "accept/reject outcome differs from the language-prescribed one",
                            "model": model[0] if model[0] != "ok" else "accepted"})
    if o.get("unroll") == "ok" and model[0] == "ok":
        real = o.get("ops")
        if real is None:
            return ("notflat", {"kind": "program", "what": "output is not flat: %s" % o.get("notflat")})
        if real != model[1]:
            k = next((j for j, (a, b) in enumerate(zip(real, model[1])) if a != b), min(len(real), len(model[1])))
            return ("ops", {"kind": "program", "what": "emitted operations differ (iteration count, branch taken or value of a name)",
                            "first_difference_at": k, "expected": str(model[1][k:k + 2]), "got": str(real[k:k + 2])})
    return None


def direct(run, chk):
    """independent oracle for loop ranges: the inclusive arithmetic progression"""
    bad = 0
    for cs, o in zip(run.cases, run.outcomes):
        if cs["family"] != "loop-ranges":
            continue
        m = LOOP_RE.search(cs["src"])
        if not m:
            continue
        a, s, b = int(m.group(1)), (int(m.group(2)) if m.group(2) is not None else 1), int(m.group(3))
        if s == 0:
            continue
        exp, x = [], a
        while (s > 0 and x <= b) or (s < 0 and x >= b):
            exp.append(x)
            x += s
        if o.get("unroll") != "ok":
            chk.violation("loop_rejected_%d" % bad, {"kind": "program", "source": cs["src"], "what": "valid loop rejected", "outcome": o.get("unroll")})
            bad += 1
            continue
        got = [g[2][0] for g in (o.get("ops") or []) if g[0] == "gate"]
        if got != exp:
            chk.violation("loop_values_%d" % bad, {"kind": "program", "source": cs["src"], "what": "loop iteration values", "expected": exp, "got": got})
            bad += 1
        if bad > 5:
            break
    direct.alias_pairs = aliasing_oracle(chk, random.Random(chk.seed + 41), 40 if chk.tier == "quick" else 600)
    direct.loops = langcheck.expansion_oracle(run, chk, lambda cs: cs["family"] == "loop-fragment")


def aliasing_pairs(rnd, n):
    """(P, P'): P passes ONE array to a mutable and to a readonly formal of one call; P' is P with the readonly formal
    replaced by the mutable one throughout.  Array arguments are passed by reference, so both formals name the caller's
    array and the two programs must unroll to the same operations (P' is inside the visitor model; P is not)."""
    out = []
    for _ in range(n):
        size = rnd.randint(2, 4)
        body = []
        for _ in range(rnd.randint(2, 5)):
            c = rnd.random()
            i, j = rnd.randrange(size), rnd.randrange(size)
            if c < 0.35:
                body.append("a[%d] = %d;" % (i, rnd.randint(3, 9)))
            elif c < 0.55:
                body.append("a[%d] = b[%d] + %d;" % (i, j, rnd.randint(1, 3)))
            elif c < 0.75:
                body.append("rx(b[%d]) qq;" % j)
            elif c < 0.85:
                body.append("rz(a[%d]) qq;" % j)
            else:
                body.append("inner(a);")
        ret = rnd.choice(["b[%d]" % rnd.randrange(size), "a[%d] + b[%d]" % (rnd.randrange(size), rnd.randrange(size)), "b[0] * 2"])
        init = ", ".join(str(rnd.randint(0, 2)) for _ in range(size))
        head = gen.H3 + "qubit[2] q;\ndef inner(mutable array[int[32], %d] z) { z[%d] = z[0] + 10; }\n" % (size, size - 1)
        tail = "array[int[32], %d] x = {%s};\n" % (size, init)
        use = "rx(r) q[1];\n" + "".join("rz(x[%d]) q[1];\n" % k for k in range(size))
        p1 = (head + "def f(mutable array[int[32], %d] a, readonly array[int[32], %d] b, qubit qq) -> int[32] { %s return %s; }\n" % (size, size, " ".join(body), ret)
              + tail + "int[32] r = f(x, x, q[0]);\n" + use)
        b2 = [st.replace("b[", "a[") for st in body]
        p2 = (head + "def f(mutable array[int[32], %d] a, qubit qq) -> int[32] { %s return %s; }\n" % (size, " ".join(b2), ret.replace("b[", "a["))
              + tail + "int[32] r = f(x, q[0]);\n" + use)
        out.append((p1, p2))
    return out


def aliasing_oracle(chk, rnd, n):
    import langcorr
    pairs = aliasing_pairs(rnd, n)
    bad = 0
    for p1, p2 in pairs:
        o1, o2 = langcorr.run_impl(p1, None), langcorr.run_impl(p2, None)
        if o2.get("unroll") != "ok":
            continue
        aliasing_oracle.accepted = getattr(aliasing_oracle, "accepted", 0) + 1
        if o1.get("unroll") != "ok" or o1.get("ops") != o2.get("ops"):
            if bad < 3:
                chk.violation("array_by_reference_%d" % bad, {"kind": "program-pair", "source": p1, "same_program_through_one_formal": p2,
                              "what": "one array passed to a mutable and a readonly formal of one call: the program does not behave as if both formals named the caller's array",
                              "got": str(o1.get("ops") if o1.get("unroll") == "ok" else o1.get("unroll"))[:600], "expected": str(o2.get("ops"))[:600]})
            bad += 1
    return len(pairs)


def run(tier, seed, replay):
    if replay:
        import json
        r = json.load(open(replay))
        if r.get("kind") == "program-pair":
            import common
            import langcorr
            chk = common.Check(PROP, "quick", 0)
            o1, o2 = langcorr.run_impl(r["source"], None), langcorr.run_impl(r["same_program_through_one_formal"], None)
            print("two formals:", o1.get("unroll"), o1.get("ops"))
            print("one formal: ", o2.get("unroll"), o2.get("ops"))
            if o2.get("unroll") == "ok" and (o1.get("unroll") != "ok" or o1.get("ops") != o2.get("ops")):
                chk.violation("replayed", r)
            return chk.finish()
        return langcheck.replay_cmd(PROP, replay)
    return langcheck.standard(PROP, tier, seed, cases(tier, seed), classify, direct=direct,
                              extra_cov=lambda run: {"array_aliasing_pairs": getattr(direct, "alias_pairs", 0), "array_aliasing_pairs_accepted": getattr(aliasing_oracle, "accepted", 0),
                                                     "loop_theorem_judgement_on_real_programs": getattr(direct, "loops", {})})
