"""openqasm3 AST -> Gallina terms of coq/Lang/Ast.v (fail-closed: unknown nodes become
SOther/EOther/TOtherType tags, never silently dropped)."""
import math

import openqasm3.ast as qa

try:
    import numpy as np
    NP_TYPES = (np.generic,)
except Exception:  # pragma: no cover
    NP_TYPES = ()


def cstr(s):
    return '"' + s.replace('"', '""') + '"'


def cZ(z):
    return "(%d)%%Z" % z


def cfloat(f):
    if math.isnan(f):
        return "PrimFloat.nan"
    if math.isinf(f):
        return "PrimFloat.infinity" if f > 0 else "PrimFloat.neg_infinity"
    h = float(f).hex()
    return "(%s)%%float" % h


def pyval_plain(v):
    """elements of classical arrays are numpy scalars: their Python value"""
    if isinstance(v, NP_TYPES):
        if isinstance(v, np.bool_):
            return bool(v)
        if isinstance(v, np.integer):
            return int(v)
        if isinstance(v, np.floating):
            return float(v)
        raise Unconvertible("numpy value %r" % (v,))
    return v


def pyval(v):
    v = pyval_plain(v)
    if isinstance(v, bool):
        return "(VBool %s)" % ("true" if v else "false")
    if isinstance(v, int):
        return "(VInt %s)" % cZ(v)
    if isinstance(v, float):
        return "(VFloat %s)" % cfloat(v)
    if v is None:
        return "VNone"
    raise Unconvertible("value %r" % (v,))


class Unconvertible(Exception):
    pass


def clist(items):
    return "[" + "; ".join(items) + "]"


def copt(x, f):
    return "None" if x is None else "(Some %s)" % f(x)


def expr(e):
    if isinstance(e, (qa.IntegerLiteral, qa.FloatLiteral, qa.BooleanLiteral)):
        return "(ELit %s)" % pyval(e.value)
    if isinstance(e, qa.ImaginaryLiteral):
        return "EImag"
    if isinstance(e, qa.DurationLiteral):
        return "EDuration"
    if isinstance(e, qa.Identifier):
        return "(EId %s)" % cstr(e.name)
    if isinstance(e, qa.IndexExpression):
        return "(EIndexE %s %s)" % (expr(e.collection), index(e.index))
    if isinstance(e, qa.UnaryExpression):
        return "(EUn %s %s)" % (cstr(e.op.name), expr(e.expression))
    if isinstance(e, qa.BinaryExpression):
        return "(EBin %s %s %s)" % (cstr(e.op.name), expr(e.lhs), expr(e.rhs))
    if isinstance(e, qa.FunctionCall):
        return "(ECall %s %s)" % (cstr(e.name.name), clist([expr(a) for a in e.arguments]))
    if isinstance(e, qa.SizeOf):
        return "(ESizeOf %s %s)" % (expr(e.target), copt(e.index, expr))
    if isinstance(e, qa.ArrayLiteral):
        return "(EArrayLit %s)" % clist([expr(a) for a in e.values])
    return "(EOther %s)" % cstr(type(e).__name__)


def idxitem(x):
    if isinstance(x, qa.RangeDefinition):
        return "(IRange %s %s %s)" % (copt(x.start, expr), copt(x.end, expr), copt(x.step, expr))
    return "(IExpr %s)" % expr(x)


def index(ix):
    if isinstance(ix, qa.DiscreteSet):
        return "(IdxSet %s)" % clist([expr(v) for v in ix.values])
    return "(IdxList %s)" % clist([idxitem(x) for x in ix])


def qarg(q):
    if isinstance(q, qa.Identifier):
        return "(QId %s)" % cstr(q.name)
    if isinstance(q, qa.IndexedIdentifier):
        return "(QIdx %s %s)" % (cstr(q.name.name), clist([index(i) for i in q.indices]))
    raise Unconvertible("operand %s" % type(q).__name__)


def ctype(t):
    if isinstance(t, qa.IntType):
        return "(TInt %s)" % copt(t.size, expr)
    if isinstance(t, qa.UintType):
        return "(TUint %s)" % copt(t.size, expr)
    if isinstance(t, qa.FloatType):
        return "(TFloat %s)" % copt(t.size, expr)
    if isinstance(t, qa.BoolType):
        return "TBool"
    if isinstance(t, qa.BitType):
        return "(TBit %s)" % copt(t.size, expr)
    if isinstance(t, qa.AngleType):
        return "(TAngle %s)" % copt(t.size, expr)
    if isinstance(t, qa.ComplexType):
        return "TComplex"
    if isinstance(t, qa.ArrayType):
        return "(TArray %s %s)" % (ctype(t.base_type), clist([expr(d) for d in t.dimensions]))
    if isinstance(t, qa.ArrayReferenceType):
        if isinstance(t.dimensions, list):
            return "(TArrayRef %s %s None)" % (ctype(t.base_type), clist([expr(d) for d in t.dimensions]))
        return "(TArrayRef %s [] (Some %s))" % (ctype(t.base_type), expr(t.dimensions))
    return "(TOtherType %s)" % cstr(type(t).__name__)


def gmod(m):
    n = m.modifier.name
    if n == "inv":
        return "MInv"
    a = copt(m.argument, expr)
    return {"pow": "(MPow %s)", "ctrl": "(MCtrl %s)", "negctrl": "(MNegCtrl %s)"}[n] % a


def farg(a):
    if isinstance(a, qa.ClassicalArgument):
        ro = a.access is not None and a.access.name == "readonly"
        return "(FClassical %s %s %s)" % (ctype(a.type), cstr(a.name.name), "true" if ro else "false")
    if isinstance(a, qa.QuantumArgument):
        return "(FQubit %s %s)" % (cstr(a.name.name), copt(a.size, expr))
    raise Unconvertible("formal %s" % type(a).__name__)


def block(b):
    if b is None:
        return "[]"
    if isinstance(b, qa.CompoundStatement):
        b = b.statements
    return clist([stmt(s) for s in b])


def stmt(s):
    if isinstance(s, qa.Include):
        return "(SInclude %s)" % cstr(s.filename)
    if isinstance(s, qa.QubitDeclaration):
        return "(SQubitDecl %s %s)" % (cstr(s.qubit.name), copt(s.size, expr))
    if isinstance(s, qa.ClassicalDeclaration):
        init = s.init_expression
        if isinstance(init, qa.QuantumMeasurement):
            return "(SOther %s)" % cstr("ClassicalDeclaration=measure")
        return "(SClassicalDecl %s %s %s)" % (ctype(s.type), cstr(s.identifier.name), copt(init, expr))
    if isinstance(s, qa.ConstantDeclaration):
        return "(SConstDecl %s %s %s)" % (ctype(s.type), cstr(s.identifier.name), expr(s.init_expression))
    if isinstance(s, qa.ClassicalAssignment):
        return "(SAssign %s %s %s)" % (qarg(s.lvalue), cstr(s.op.name), expr(s.rvalue))
    if isinstance(s, qa.QuantumGateDefinition):
        return "(SGateDef %s %s %s %s)" % (cstr(s.name.name), clist([cstr(a.name) for a in s.arguments]),
                                           clist([cstr(q.name) for q in s.qubits]), block(s.body))
    if isinstance(s, qa.QuantumGate):
        return "(SGate %s %s %s %s)" % (clist([gmod(m) for m in s.modifiers]), cstr(s.name.name),
                                        clist([expr(a) for a in s.arguments]), clist([qarg(q) for q in s.qubits]))
    if isinstance(s, qa.QuantumPhase):
        return "(SPhase %s %s %s)" % (clist([gmod(m) for m in s.modifiers]), expr(s.argument),
                                      clist([qarg(q) for q in (s.qubits or [])]))
    if isinstance(s, qa.QuantumMeasurementStatement):
        return "(SMeasure %s %s)" % (qarg(s.measure.qubit), copt(s.target, qarg))
    if isinstance(s, qa.QuantumReset):
        q = s.qubits
        if isinstance(q, list):  # only in pyqasm-rewritten nodes
            raise Unconvertible("reset with list operand")
        return "(SReset %s)" % qarg(q)
    if isinstance(s, qa.QuantumBarrier):
        return "(SBarrier %s)" % clist([qarg(q) for q in s.qubits])
    if isinstance(s, qa.BranchingStatement):
        return "(SIf %s %s %s)" % (expr(s.condition), block(s.if_block), block(s.else_block))
    if isinstance(s, qa.ForInLoop):
        sd = s.set_declaration
        if isinstance(sd, qa.RangeDefinition):
            fs = "(FRange %s %s %s)" % (copt(sd.start, expr), copt(sd.end, expr), copt(sd.step, expr))
        elif isinstance(sd, qa.DiscreteSet):
            fs = "(FSet %s)" % clist([expr(v) for v in sd.values])
        else:
            fs = "FOtherSet"
        return "(SFor %s %s %s %s)" % (ctype(s.type), cstr(s.identifier.name), fs, block(s.block))
    if isinstance(s, qa.SwitchStatement):
        cases = clist(["(%s, %s)" % (clist([expr(v) for v in vs]), block(b)) for vs, b in s.cases])
        return "(SSwitch %s %s %s)" % (expr(s.target), cases, copt(s.default, block))
    if isinstance(s, qa.AliasStatement):
        return "(SAlias %s %s)" % (cstr(s.target.name), expr(s.value))
    if isinstance(s, qa.SubroutineDefinition):
        return "(SSubDef %s %s %s %s)" % (cstr(s.name.name), clist([farg(a) for a in s.arguments]),
                                          copt(s.return_type, ctype), block(s.body))
    if isinstance(s, qa.ExpressionStatement):
        return "(SExprStmt %s)" % expr(s.expression)
    if isinstance(s, qa.ReturnStatement):
        if isinstance(s.expression, qa.QuantumMeasurement):
            return "(SOther %s)" % cstr("Return=measure")
        return "(SReturn %s)" % copt(s.expression, expr)
    if isinstance(s, qa.IODeclaration):
        return "SIODecl"
    return "(SOther %s)" % cstr(type(s).__name__)


def program(p):
    return clist([stmt(s) for s in p.statements])
