"""C04: programs containing a checked semantic error are never accepted."""
import random

import gen
import langcheck

PROP = "C04"
NOT_CATALOGUE = {"division-by-zero", "negative-shift", "pow-non-integer"}


def cases(tier, seed):
    out = []
    for cls, ctx, src in gen.error_cases():
        if cls in NOT_CATALOGUE:
            continue
        out.append(dict(src=src, family="error:%s" % ctx, label=cls))
    if tier == "thorough":
        # the same product with the error nested one level deeper
        for cls, ctx, src in gen.error_cases():
            if cls in NOT_CATALOGUE or ctx in ("top", "sub-body"):
                continue
            body = "\n".join(src.splitlines()[2:])
            lines = body.split("\n")
            pre, last = "\n".join(lines[:-1]), lines[-1]
            out.append(dict(src=gen.H3 + pre + "\nif (bv) { for int dd in [0:0] { " + last + " } }\n", family="error:deep-%s" % ctx, label=cls))
    return out


def classify(run, i, model):
    """a catalogue error must be rejected with ValidationError by validate() and unroll()"""
    o = run.outcomes[i]
    if o.get("validate") == "validation" and o.get("unroll") == "validation":
        return None
    return ("accepted", {"kind": "program", "error_class": run.cases[i].get("label"),
                         "what": "program containing a checked error is not rejected with ValidationError"})


def direct(run, chk):
    n = 0
    for i, (cs, o) in enumerate(zip(run.cases, run.outcomes)):
        if o.get("load") != "ok":
            continue
        if o.get("validate") != "validation" or o.get("unroll") != "validation":
            if run.verdicts[i] == 0 or run.verdicts[i] == 9:   # model agrees: would not be seen as a disagreement
                chk.violation("accepted_%d" % i, {"kind": "program", "source": cs["src"], "error_class": cs.get("label"),
                                                  "context": cs["family"], "validate": o.get("validate"), "unroll": o.get("unroll"),
                                                  "what": "program containing a checked error is not rejected with ValidationError"})
                n += 1
                if n > 8:
                    return


def extra(run):
    if run is None:
        return {}
    classes = sorted(set(c.get("label") for c in run.cases))
    return {"error_classes": classes, "contexts": sorted(set(c["family"] for c in run.cases))}


def run(tier, seed, replay):
    if replay:
        return langcheck.replay_cmd(PROP, replay)
    return langcheck.standard(PROP, tier, seed, cases(tier, seed), classify, direct=direct, extra_cov=extra)
