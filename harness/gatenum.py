"""Numeric evaluation of real pyqasm output (search tool, never a proof).

Builds the unitary of the flat circuit pyqasm emits and compares it with the numeric defining
unitary of spec/gates_spec.py up to a global phase.  Qubit 0 (first declared) is the most
significant bit, matching coq/Gates/Apply.v.
"""
import cmath
import math
import os
import sys

import numpy as np

HERE = os.path.dirname(os.path.abspath(__file__))
sys.path.insert(0, os.path.join(HERE, "..", "spec"))
import gates_spec  # noqa: E402

SQ2 = 1 / math.sqrt(2)


def basis_matrix(name, args):
    a = args[0] if args else None
    if name == "id":
        return np.eye(2, dtype=complex)
    if name == "x":
        return np.array([[0, 1], [1, 0]], dtype=complex)
    if name == "y":
        return np.array([[0, -1j], [1j, 0]])
    if name == "z":
        return np.array([[1, 0], [0, -1]], dtype=complex)
    if name == "h":
        return np.array([[SQ2, SQ2], [SQ2, -SQ2]], dtype=complex)
    if name == "s":
        return np.array([[1, 0], [0, 1j]])
    if name == "sdg":
        return np.array([[1, 0], [0, -1j]])
    if name == "t":
        return np.array([[1, 0], [0, cmath.exp(1j * math.pi / 4)]])
    if name == "tdg":
        return np.array([[1, 0], [0, cmath.exp(-1j * math.pi / 4)]])
    if name == "sx":
        return 0.5 * np.array([[1 + 1j, 1 - 1j], [1 - 1j, 1 + 1j]])
    if name == "sxdg":
        return 0.5 * np.array([[1 - 1j, 1 + 1j], [1 + 1j, 1 - 1j]])
    if name == "rx":
        c, s = math.cos(a / 2), math.sin(a / 2)
        return np.array([[c, -1j * s], [-1j * s, c]])
    if name == "ry":
        c, s = math.cos(a / 2), math.sin(a / 2)
        return np.array([[c, -s], [s, c]], dtype=complex)
    if name == "rz":
        return np.array([[cmath.exp(-1j * a / 2), 0], [0, cmath.exp(1j * a / 2)]])
    if name == "cx":
        return np.array([[1, 0, 0, 0], [0, 1, 0, 0], [0, 0, 0, 1], [0, 0, 1, 0]], dtype=complex)
    if name == "cz":
        return np.diag([1, 1, 1, -1]).astype(complex)
    if name == "swap":
        return np.array([[1, 0, 0, 0], [0, 0, 1, 0], [0, 1, 0, 0], [0, 0, 0, 1]], dtype=complex)
    if name == "ccx":
        m = np.eye(8, dtype=complex)
        m[[6, 7]] = m[[7, 6]]
        return m
    if name == "c4x":
        m = np.eye(32, dtype=complex)
        m[[30, 31]] = m[[31, 30]]
        return m
    raise KeyError("not a basis gate: %s" % name)


def apply_gate(U, M, qs, n):
    """left-multiply U (2^n x 2^n) by gate M acting on qubits qs (qubit 0 = MSB)"""
    k = len(qs)
    T = U.reshape([2] * n + [U.shape[1]])
    Mt = M.reshape([2] * (2 * k))
    T = np.tensordot(Mt, T, axes=(list(range(k, 2 * k)), list(qs)))
    # tensordot puts the k new axes first; move them back to positions qs
    T = np.moveaxis(T, list(range(k)), list(qs))
    return T.reshape(U.shape)


def circuit_unitary(ops, n):
    """ops: list of ('gate', name, [float args], [qubit indices]) | ('gphase', angle)"""
    U = np.eye(2 ** n, dtype=complex)
    for op in ops:
        if op[0] == "gphase":
            U = cmath.exp(1j * op[1]) * U
        else:
            _, name, args, qs = op
            U = apply_gate(U, basis_matrix(name, args), qs, n)
    return U


def phase_equal(A, B, tol=1e-9):
    """A == c*B for some |c| = 1"""
    A, B = np.asarray(A, dtype=complex), np.asarray(B, dtype=complex)
    if A.shape != B.shape:
        return False
    idx = np.unravel_index(np.argmax(np.abs(B)), B.shape)
    if abs(B[idx]) < 1e-12:
        return np.allclose(A, B, atol=tol)
    c = A[idx] / B[idx]
    if abs(abs(c) - 1) > 1e-7:
        return False
    return np.allclose(A, c * B, atol=tol)


def flat_ops_from_module(module, offsets):
    """convert module.unrolled_ast into ops for circuit_unitary; offsets: reg name -> base index"""
    import openqasm3.ast as qa
    ops = []
    for st in module.unrolled_ast.statements:
        if isinstance(st, qa.QuantumGate):
            if st.modifiers:
                raise ValueError("modifier in unrolled output")
            args = [float(a.value) if not isinstance(a, qa.UnaryExpression) else -float(a.expression.value)
                    for a in st.arguments]
            qs = [offsets[q.name.name] + q.indices[0][0].value for q in st.qubits]
            ops.append(("gate", st.name.name, args, qs))
        elif isinstance(st, qa.QuantumPhase):
            a = st.argument
            v = float(a.value) if not isinstance(a, qa.UnaryExpression) else -float(a.expression.value)
            ops.append(("gphase", v))
        elif isinstance(st, (qa.Include, qa.QubitDeclaration, qa.ClassicalDeclaration, qa.QuantumBarrier)):
            continue
        else:
            raise ValueError("non-unitary statement %s" % type(st).__name__)
    return ops


def real_gate_unitary(name, params, prefix=""):
    """unitary of what real pyqasm emits for `prefix name(params) q[0],...,q[k-1];`"""
    import pyqasm
    if name in gates_spec.SPECS:
        k = gates_spec.SPECS[name][1]
    else:
        k = 2
    ps = "(" + ", ".join(repr(float(p)) for p in params) + ")" if params else ""
    qs = ", ".join("q[%d]" % i for i in range(k))
    src = 'OPENQASM 3.0;\ninclude "stdgates.inc";\nqubit[%d] q;\n%s%s%s %s;\n' % (k, prefix, name, ps, qs)
    m = pyqasm.loads(src)
    m.unroll()
    return circuit_unitary(flat_ops_from_module(m, {"q": 0}), k), src


def check_gate_numeric(name, params):
    """returns (ok, source, detail)"""
    try:
        U, src = real_gate_unitary(name, params)
    except Exception as e:  # the call itself fails
        return False, "%s%r" % (name, tuple(params)), "exception %s: %s" % (type(e).__name__, e)
    V = np.array(gates_spec.numeric(name, list(params)))
    return phase_equal(U, V), src, ""


def check_gate_broadcast(name, params):
    """one statement applying the gate to two groups of operands must equal the two single applications
    (both through real pyqasm): (ok, source, detail)"""
    import pyqasm
    k = gates_spec.SPECS[name][1] if name in gates_spec.SPECS else 2
    if k > 3:
        return True, "", "skipped"
    ps = "(" + ", ".join(repr(float(p)) for p in params) + ")" if params else ""
    head = 'OPENQASM 3.0;\ninclude "stdgates.inc";\nqubit[%d] q;\n' % (2 * k)
    one = head + "%s%s %s;\n" % (name, ps, ", ".join("q[%d]" % i for i in range(2 * k)))
    two = head + "%s%s %s;\n%s%s %s;\n" % (name, ps, ", ".join("q[%d]" % i for i in range(k)),
                                           name, ps, ", ".join("q[%d]" % i for i in range(k, 2 * k)))
    try:
        m1, m2 = pyqasm.loads(one), pyqasm.loads(two)
        m1.unroll()
        m2.unroll()
        U = circuit_unitary(flat_ops_from_module(m1, {"q": 0}), 2 * k)
        V = circuit_unitary(flat_ops_from_module(m2, {"q": 0}), 2 * k)
    except Exception as e:
        return False, one, "exception %s: %s" % (type(e).__name__, e)
    return phase_equal(U, V), one, "one statement on two operand groups differs from the two single applications"


if __name__ == "__main__":
    import random
    rnd = random.Random(1)
    bad = []
    names = list(gates_spec.SPECS) + sorted(gates_spec.NUMERIC_ONLY)
    for n in names:
        np_ = gates_spec.SPECS[n][0] if n in gates_spec.SPECS else 3
        for _ in range(3):
            vals = [rnd.uniform(-3, 3) for _ in range(np_)]
            ok, src, det = check_gate_numeric(n, vals)
            if not ok:
                bad.append((n, vals, det))
                break
    for b in bad:
        print("MISMATCH", b)
    print("checked", len(names), "bad", len(bad))
