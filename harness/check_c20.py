"""C20: the validate CLI's verdict and exit status match the library's verdict per file."""
import itertools
import multiprocessing
import os
import random
import re
import shutil
import subprocess
import tempfile

import common
import ir
import langcheck

PROP = "C20"
VALID = "OPENQASM 3.0;\ninclude \"stdgates.inc\";\nqubit[2] q;\nh q[0];\ncx q[0], q[1];\n"
CONTENT = {
    "valid": VALID,
    "invalid": "OPENQASM 3.0;\ninclude \"stdgates.inc\";\nqubit[2] q;\nh r[0];\n",
    "unparsable": "OPENQASM 3.0;\nqubit[2] q\nh q[0];\n",
    "tagged-valid": "// pyqasm: ignore\n" + VALID,
    "tagged-invalid": "// some comment\n// pyqasm: ignore\nOPENQASM 3.0;\nqubit[2] q;\nh r[0];\n",
    "tag-after-header-invalid": "OPENQASM 3.0;\n// pyqasm: ignore\nqubit[2] q;\nh r[0];\n",
    "tag-after-header-valid": "OPENQASM 3.0;\n// pyqasm: ignore\nqubit[2] q;\nh q[0];\n",
    "invalid-qasm2": "OPENQASM 2.0;\ninclude \"qelib1.inc\";\nqreg q[1];\nfor int i in [0:1] { h q[0]; }\n",
    "text": "just some text, not a program\n",
    # the scan for the tag stops at the first line CONTAINING the version keyword, wherever it stands on the line
    "indented-header-tag-after-invalid": "  OPENQASM 3.0;\n// pyqasm: ignore\nqubit[2] q;\nh r[0];\n",
    "comment-then-header-tag-after-invalid": "/* generated */ OPENQASM 3.0;\nqubit[2] q;\n// pyqasm: ignore\nh r[0];\n",
    "tab-header-tag-after-valid": "\tOPENQASM 3.0;\n// pyqasm: ignore\nqubit[2] q;\nh q[0];\n",
    "tag-on-header-line-invalid": "OPENQASM 3.0; // pyqasm: ignore\nqubit[2] q;\nh r[0];\n",
    "tag-with-leading-text-invalid": "// note // pyqasm: ignore\nOPENQASM 3.0;\nqubit[2] q;\nh r[0];\n",
    "blank-lines-then-tag-invalid": "\n\n// pyqasm: ignore\nOPENQASM 3.0;\nqubit[2] q;\nh r[0];\n",
    "keyword-in-comment-then-tag-invalid": "// OPENQASM program below\n// pyqasm: ignore\nOPENQASM 3.0;\nqubit[2] q;\nh r[0];\n",
}
# (ignored by tag?, passes loads+validate?)
TRUTH = {"valid": (False, True), "invalid": (False, False), "unparsable": (False, False), "tagged-valid": (True, True),
         "tagged-invalid": (True, False), "tag-after-header-invalid": (False, False), "tag-after-header-valid": (False, True),
         "invalid-qasm2": (False, False), "text": (False, False),
         "indented-header-tag-after-invalid": (False, False), "comment-then-header-tag-after-invalid": (False, False),
         "tab-header-tag-after-valid": (False, True), "tag-on-header-line-invalid": (True, False),
         "tag-with-leading-text-invalid": (True, False), "blank-lines-then-tag-invalid": (True, False),
         "keyword-in-comment-then-tag-invalid": (False, False)}
NAMES = ["a.qasm", "b.qasm", "sub/c.qasm", "sub/deep/d.qasm", "x.qasm.bak", "notes.txt", "sub/e.QASM", "qasm", "dir.qasm/f.qasm",
         ".hidden/g.qasm", ".draft.qasm", "sub/.cache/h.qasm", "we[i]rd/k.qasm", "sp ace/m.qasm", "sub/n*.qasm"]


def random_tree(rnd):
    n = rnd.randint(0, 5)
    names = rnd.sample(NAMES, n)
    return {nm: rnd.choice(list(CONTENT)) for nm in names}


def invocations(rnd, tree):
    """argument / skip combinations for one tree (paths relative to the tree root, which is the cwd)"""
    files = sorted(tree)
    dirs = sorted(set(["."] + [os.path.dirname(f) for f in files if os.path.dirname(f)] +
                      [os.path.dirname(os.path.dirname(f)) for f in files if os.path.dirname(os.path.dirname(f))]))
    dirs = [d for d in dirs if d]
    pool = files + dirs
    out = []
    for _ in range(3):
        k = rnd.randint(1, min(3, len(pool))) if pool else 0
        args = [rnd.choice(pool) for _ in range(k)] if pool else ["."]
        # spell some paths differently
        args = [("./" + a if rnd.random() < 0.2 and not a.startswith(".") else a) for a in args]
        skip = []
        r = rnd.random()
        if files and r < 0.5:
            skip = [rnd.choice(files)]
            if rnd.random() < 0.3:
                skip[0] = "./" + skip[0]          # spelled differently from the discovered path
        elif files and r < 0.65:
            skip = rnd.sample(files, min(2, len(files)))
        out.append((args, skip))
    return out


def discovered(root, args):
    """what the CLI can reach, in its own order: list per argument of ('dir', [(path, name)]) / ('file', path)"""
    res = []
    for a in args:
        full = os.path.join(root, a)
        if os.path.isdir(full):
            fs = []
            for r, _, files in os.walk(a if False else full):
                for f in files:
                    rel_root = os.path.relpath(r, root)
                    # the CLI walks the argument string itself: reproduce its path strings
                    shown_root = a if os.path.abspath(r) == os.path.abspath(full) else os.path.join(a, os.path.relpath(r, full))
                    fs.append(os.path.join(shown_root, f))
            res.append(("dir", fs))
        elif os.path.isfile(full):
            res.append(("file", a))
    return res


def cli_job(job):
    root, args, skip = job
    env = common.pyqasm_env()
    env["COLUMNS"] = "1000"
    env["NO_COLOR"] = "1"
    env["TERM"] = "dumb"
    cmd = [common.PY, "-W", "ignore", "-m", "pyqasm.cli.main", "validate"] + args
    for s in skip:
        cmd += ["--skip", s]
    p = subprocess.run(cmd, cwd=root, capture_output=True, text=True, env=env)
    named = re.findall(r"(?m)^(.+?): error:", p.stdout)
    return p.returncode, named, p.stdout[-400:]


def file_term(path, kind):
    tagged, valid = TRUTH[kind]
    return "(mkFile %s %s %s %s)" % (ir.cstr(path), "true" if path.endswith(".qasm") else "false", "true" if tagged else "false", "true" if valid else "false")


def run(tier, seed, replay):
    chk = common.Check(PROP, tier, seed)
    res = common.build(["Text/Cli.vo", "Props/C20.vo"], fresh=["Props/C20.v"])
    closed, axioms = common.parse_assumptions(res.log)
    proof_ok = res.ok and not common.axioms_ok(axioms) and not common.hygiene()
    rnd = random.Random(seed * 31 + 7)
    scratch = tempfile.mkdtemp(prefix="verif-run-c20-", dir=os.environ.get("VERIF_SCRATCH", "/tmp"))
    ntrees = 60 if tier == "quick" else 600
    jobs, meta = [], []
    try:
        # ground truth of the content kinds on the current tree (once, in process)
        import logging
        logging.disable(logging.CRITICAL)
        import pyqasm
        truth_ok = True
        for kind, text in CONTENT.items():
            try:
                pyqasm.loads(text).validate()
                ok = True
            except Exception:
                ok = False
            if ok != TRUTH[kind][1]:
                truth_ok = False
                chk.violation("truth_%s" % kind.replace("-", "_"), {"kind": "cli", "what": "content kind %s: loads()+validate() says %s" % (kind, ok)}, no_input=True)
        trees = []
        if replay:
            r = __import__("json").load(open(replay))
            trees = [(r["tree"], [(r["args"], r["skip"])])]
        else:
            for _ in range(ntrees):
                t = random_tree(rnd)
                trees.append((t, invocations(rnd, t)))
            # the corpus of repaired defects
            for e in common.load_known(PROP):
                rp = e.get("replay", {})
                if rp.get("kind") == "cli":
                    trees.append((rp["tree"], [(rp["args"], rp["skip"])]))
        for k, (tree, invs) in enumerate(trees):
            root = os.path.join(scratch, "t%d" % k)
            os.makedirs(root)
            open(os.path.join(root, "unrelated.qasm.keep"), "w").write(VALID)
            for nm, kind in tree.items():
                os.makedirs(os.path.join(root, os.path.dirname(nm)), exist_ok=True)
                with open(os.path.join(root, nm), "w") as fh:
                    fh.write(CONTENT[kind])
            for args, skip in invs:
                args = [a for a in args if os.path.exists(os.path.join(root, a))] or ["."]
                skip = [s for s in skip if os.path.exists(os.path.join(root, s))]
                jobs.append((root, args, skip))
                meta.append((tree, args, skip))
        with multiprocessing.Pool(12) as pool:
            outs = pool.map(cli_job, jobs, chunksize=4)
        # the model's answer, evaluated by coqc
        terms = []
        for (root, args, skip), (tree, _, _) in zip(jobs, meta):
            kinds = {os.path.normpath(k): v for k, v in tree.items()}
            al = []
            for what, x in discovered(root, args):
                if what == "dir":
                    al.append("ADir %s" % ir.clist([file_term(p, kinds.get(os.path.normpath(p), "valid")) for p in x]))
                else:
                    al.append("AFile %s" % file_term(x, kinds.get(os.path.normpath(x), "valid")))
            terms.append("(cli_exit %s %s, cli_named %s %s)" % (ir.clist(al), ir.clist([ir.cstr(s) for s in skip]), ir.clist(al), ir.clist([ir.cstr(s) for s in skip])))
        d = common.run_dir()
        f = os.path.join(d, "cli_cases.v")
        with open(f, "w") as fh:
            fh.write("From Coq Require Import ZArith List String.\nFrom Verif Require Import Cli.\nImport ListNotations.\nOpen Scope string_scope.\n")
            for t in terms:
                fh.write("Eval vm_compute in %s.\n" % t)
        p = subprocess.run(["timeout", "600", "coqc", "-Q", common.COQ, "Verif", f], capture_output=True, text=True)
        model = []
        if p.returncode == 0:
            for ch in re.split(r"\n\s*=\s", "\n" + p.stdout)[1:]:
                body = ch.rsplit("\n     :", 1)[0]
                m = re.match(r"\s*\((-?\d+)(?:%Z)?,\s*\[(.*)\]\)", body.replace("\n", " "), re.S)
                if m:
                    model.append((int(m.group(1)), re.findall(r'"([^"]*)"', m.group(2))))
                else:
                    model.append(None)
        nbad = 0
        agree = 0
        for (tree, args, skip), (rc, named, tail), mo in zip(meta, outs, model + [None] * (len(outs) - len(model))):
            if mo is None:
                continue
            if (rc != 0) == (mo[0] != 0) and sorted(named) == sorted(mo[1]):
                agree += 1
                continue
            nbad += 1
            if nbad <= 5:
                chk.violation("cli_%d" % nbad, {"kind": "cli", "tree": tree, "args": args, "skip": skip,
                                                "what": "exit status / named files differ from the verdict (examined files that fail loads()+validate())",
                                                "expected_exit_nonzero": mo[0] != 0, "expected_named": mo[1],
                                                "exit_status": rc, "named": named, "stdout_tail": tail})
        if p.returncode != 0 or len(model) != len(outs) or any(m is None for m in model):
            if not chk.violations:
                chk.violation("correspondence_broken", {"kind": "correspondence", "what": "coqc could not evaluate the CLI model", "stderr": p.stderr[-500:]}, no_input=True)
        if not proof_ok and not chk.violations:
            chk.violation("proof_broken", {"kind": "proof", "broken": res.failed_target, "theorem_file": "coq/Props/C20.v", "log_tail": res.log[-1200:]}, no_input=True)
        nthm = langcheck.count_theorems(PROP)
        kinds_used = {}
        for tree, _, _ in meta:
            for k in tree.values():
                kinds_used[k] = kinds_used.get(k, 0) + 1
        chk.coverage = {
            "checker_cmd": "make -C coq Props/C20.vo Text/Cli.vo (coqc 8.16.1)",
            "trusted_base": ["Coq 8.16.1 kernel + vm_compute", "harness/check_c20.py (tree materialisation, os.walk order, stdout parsing)", "typer/rich (process wiring)"],
            "source_fingerprint": common.src_fingerprint(),
            "evaluations": len(jobs), "distinct_nontrivial": len(set((str(sorted(t.items())), tuple(a), tuple(s)) for t, a, s in meta if t)),
            "rule": "one evaluation = one process invocation of `python -m pyqasm.cli.main validate ARGS [--skip S]...` on a materialised tree; non-trivial = the tree has at least one file; distinct by (tree, args, skips)",
            "traces_validated_against_impl": agree,
            "content_kinds": kinds_used,
            "with_skip": sum(1 for _, _, s in meta if s), "exit_nonzero": sum(1 for rc, _, _ in outs if rc != 0),
            "samples": [{"tree": t, "args": a, "skip": s} for t, a, s in meta[:: max(1, len(meta) // 3)][:3]],
        }
        if proof_ok:
            chk.coverage["obligations"] = nthm
            chk.coverage["discharged"] = nthm
        chk.assumptions = ["os.walk order, symlinks and encodings are outside the property", "the ground truth of each file content is loads()+validate() on the current tree"]
    finally:
        shutil.rmtree(scratch, ignore_errors=True)
    return chk.finish()
