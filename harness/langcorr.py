"""Correspondence between the Coq model of the visitor (coq/Lang/Unroll.v) and real pyqasm.
Runs programs through the public API, writes sharded case files, lets coqc evaluate
`check_case` by vm_compute, and returns the per-case verdict codes."""
import os
import re
import subprocess
import sys
import time

import common
import ir

SPEC_VERDICTS = {0: "spec-agrees", 11: "spec-accepts/impl-rejects", 12: "spec-checked-error/impl-accepts",
                 13: "spec-trace-differs", 14: "spec-checked-error/impl-internal", 15: "depth-is-not-critical-path-of-reference-trace", 18: "spec-fuel", 19: "spec-silent"}
VERDICTS = {0: "agree", 1: "validate-class", 2: "unroll-class", 3: "statements", 4: "counts", 5: "depth",
            8: "fuel", 9: "unmodelled"}


def classify(exc):
    import pyqasm
    if isinstance(exc, pyqasm.ValidationError):
        return "validation"
    return "internal:" + type(exc).__name__


def run_impl(src, externals=None):
    """outcome of real pyqasm on one program (fresh module per call); plain picklable data:
    Gallina terms for the parsed program and the unrolled statements, flat ops, dumped text"""
    import copy
    import pyqasm
    import flatsim
    out = {"src": src, "ext": list(externals or [])}
    try:
        m = pyqasm.loads(src)
    except Exception as e:
        out["load"] = classify(e)
        return out
    out["load"] = "ok"
    out["qasm2"] = type(m).__name__ == "Qasm2Module"
    try:
        out["prog_term"] = ir.program(copy.deepcopy(m.original_program))   # visits literalise sizes in place
    except ir.Unconvertible as e:
        out["load"] = "unconvertible:%s" % e
        return out
    try:
        m.validate()
        out["validate"] = "ok"
    except RecursionError:
        out["validate"] = "internal:RecursionError"
    except Exception as e:
        out["validate"] = classify(e)
    m2 = pyqasm.loads(src)
    try:
        if externals:
            m2.unroll(external_gates=list(externals))
        else:
            m2.unroll()
        out["unroll"] = "ok"
        stmts = m2.unrolled_ast.statements
        out["nq"], out["nc"] = m2._num_qubits, m2._num_clbits
        dq = max([n.depth for n in m2._qubit_depths.values()] or [0])
        dc = max([n.depth for n in m2._clbit_depths.values()] or [0])
        out["depth"] = max(dq, dc)
        try:
            out["stmts_term"] = ir.clist([ir.stmt(x) for x in stmts])
        except ir.Unconvertible as e:
            out["stmts_term"] = None
            out["unconvertible"] = str(e)
        try:
            out["ops"] = flatsim.from_ast(stmts, strict=False)
        except flatsim.NotFlat as e:
            out["ops"] = None
            out["notflat"] = str(e)
        try:
            flatsim.from_ast(stmts, strict=True)
            if out["ops"] is not None:
                flatsim.check_ranges(out["ops"])
            out["flat_error"] = None
        except flatsim.NotFlat as e:
            out["flat_error"] = str(e)
        if not externals:
            try:
                out["depth_api"] = pyqasm.loads(src).depth()     # the public API on a fresh module
            except Exception as e:
                out["depth_api"] = "error:%s" % type(e).__name__
        try:
            out["dump"] = pyqasm.dumps(m2)
        except Exception as e:
            out["dump"] = None
            out["dump_error"] = "%s: %s" % (type(e).__name__, e)
    except RecursionError:
        out["unroll"] = "internal:RecursionError"
    except Exception as e:
        out["unroll"] = classify(e)
        out["unroll_msg"] = str(e)[:200]
    return out


def case_term(o):
    if o.get("unroll") == "ok":
        if o.get("stmts_term") is None:
            raise ir.Unconvertible(o.get("unconvertible", "?"))
        d = o.get("depth_api") if isinstance(o.get("depth_api"), int) else o["depth"]
        unr = "(XOk %s %s %s %s)" % (o["stmts_term"], ir.cZ(o["nq"]), ir.cZ(o["nc"]), ir.cZ(d))
    else:
        unr = "XValidation" if o["unroll"] == "validation" else "XInternal"
    val = "(XOk [] 0 0 0)" if o["validate"] == "ok" else ("XValidation" if o["validate"] == "validation" else "XInternal")
    ext = ir.clist([ir.cstr(x) for x in o["ext"]])
    return "(mkCase %s %s %s %s %s)" % ("true" if o.get("qasm2") else "false", o["prog_term"], ext, val, unr)


HEADER = ("From Coq Require Import ZArith List String PrimFloat.\n"
          "From Verif Require Import BGate PyVal Ast State Unroll Corr.\n"
          "Import ListNotations.\nOpen Scope string_scope.\n")


def evaluate(outcomes, shard=200, tag="cases", strict=False):
    """returns list of verdict codes aligned with outcomes (None = could not be converted / load failed)"""
    d = common.run_dir()
    terms, idx = [], []
    for i, o in enumerate(outcomes):
        if o.get("load") != "ok":
            continue
        try:
            terms.append(case_term(o))
            idx.append(i)
        except ir.Unconvertible:
            continue
    files = []
    for k in range(0, len(terms), shard):
        f = os.path.join(d, "%s_%d.v" % (tag, k // shard))
        with open(f, "w") as fh:
            fh.write(HEADER)
            fh.write("Definition cases : list case :=\n [%s].\n" % ";\n  ".join(terms[k:k + shard]))
            fh.write("Eval vm_compute in (map check_case cases).\n")
            fh.write("Eval vm_compute in (map (spec_case %s) cases).\n" % ("true" if strict else "false"))
        files.append(f)
    verdicts = [None] * len(outcomes)
    spec_verdicts = [None] * len(outcomes)
    procs = []
    pending = list(enumerate(files))
    results = {}
    maxp = common.NPROC
    while pending or procs:
        while pending and len(procs) < maxp:
            k, f = pending.pop(0)
            p = subprocess.Popen(["timeout", "900", "coqc", "-Q", common.COQ, "Verif", f],
                                 stdout=subprocess.PIPE, stderr=subprocess.PIPE, text=True)
            procs.append((k, f, p))
        still = []
        for k, f, p in procs:
            if p.poll() is None:
                still.append((k, f, p))
            else:
                so, se = p.communicate()
                results[k] = (p.returncode, so, se)
        procs = still
        if procs:
            time.sleep(0.05)
    errors = []
    for k, f in enumerate(files):
        rc, so, se = results[k]
        if rc != 0:
            errors.append((f, se[-800:]))
            continue
        parts = so.split("= [")
        chunk = idx[k * shard:(k + 1) * shard]
        lists = []
        for part in parts[1:3]:
            lists.append([int(x) for x in re.findall(r"\d+", part.split("]")[0])])
        if len(lists) != 2 or len(lists[0]) != len(chunk) or len(lists[1]) != len(chunk):
            errors.append((f, "parsed %s codes for %d cases" % ([len(l) for l in lists], len(chunk))))
            continue
        for i, c, sc in zip(chunk, lists[0], lists[1]):
            verdicts[i] = c
            spec_verdicts[i] = sc
    evaluate.last_spec = spec_verdicts
    return verdicts, errors


if __name__ == "__main__":
    import logging
    logging.disable(logging.CRITICAL)
    H = 'OPENQASM 3.0;\ninclude "stdgates.inc";\n'
    progs = [
        "qubit[2] q; h q[0]; cx q[0], q[1];",
        "qubit[3] q; bit[3] c; h q; c = measure q; if (c[0] == 1) { x q[1]; } else { z q[2]; }",
        "qubit[4] q; for int i in [0:2] { rx(i * pi / 2) q[i]; } crz(0.5) q[0], q[3];",
        "qubit[2] q; gate g(a) x, y { rx(a) x; cx x, y; } g(0.3) q[0], q[1]; inv @ g(0.3) q[0], q[1]; pow(2) @ g(1) q;",
        "qubit[4] q; def f(qubit[2] a, int[8] n) -> int[8] { for int i in [0:n] { h a[i]; } return n + 1; } int[8] k = f(q[1:3], 1); rz(k) q[0];",
        "qubit[4] q; let a = q[1:3]; h a; x a[0]; int i = 2; switch(i) { case 1 { x q[0]; } case 2, 3 { y q[0]; } default { z q[0]; } }",
        "qubit[2] q; h r;",
        "qubit[2] q; int[4] a = 9;",
        "qubit[2] q; gphase(0.5); rzz(0.3) q[0], q[1]; barrier q; reset q[0];",
        "qubit[2] q; uint[4] u = 17; float[32] f = u / 2; rx(f) q[0]; bool b = !u; if (b) { x q; } else { y q; }",
    ]
    outs = [run_impl(H + p) for p in progs]
    v, errs = evaluate(outs)
    for p, o, c in zip(progs, outs, v):
        print(VERDICTS.get(c, c), "|", o.get("validate"), o.get("unroll"), "|", p[:70])
    for e in errs:
        print("ERR", e)
    common.cleanup_run_dir()
