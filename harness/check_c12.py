"""C12: reverse_qubit_order mirrors every register and is its own inverse."""
import modcheck
import modcorr

PROP = "C12"
PREFIXES = [[], ["validate"], ["unroll"], ["depth"], ["unroll", "num_qubits"]]


def make_cases(rnd, tier, progs):
    n = 500 if tier == "quick" else 8000
    ps = progs(120 if tier == "quick" else 600, dict(gates=7, measure=2, reset=1, barrier=2, if_meas=3, custom=2))
    out = []
    for k in range(n):
        src = ps[k % len(ps)]
        body = [(0, q) for q in rnd.choice(PREFIXES)]
        if rnd.random() < 0.45:
            # other transformations first (on a module that may never have been unrolled): the transformation under
            # test starts from whatever program and bookkeeping they leave
            pre = [t for t in modcorr.TRANSFORMS]
            body += [(0, rnd.choice(pre), True) for _ in range(rnd.randint(1, 2))]
            if rnd.random() < 0.3:
                body.append((0, rnd.choice(["unroll", "validate", "depth"])))
        nmod = 1
        inpl = rnd.random() < 0.7
        body.append((0, "reverse_qubit_order", inpl))
        tgt = 0
        if not inpl:
            nmod, tgt = 2, 1
        r = rnd.random()
        if r < 0.4:
            body.append((tgt, "reverse_qubit_order", True))      # involution
        elif r < 0.55:
            body += [(tgt, "unroll"), (tgt, "reverse_qubit_order", True)]
        elif r < 0.65:
            body.append((tgt, "unroll"))
        hist, nobs = modcheck.hist_with_obs(rnd, body, nmod)
        out.append(dict(src=src, hist=hist, nobs=nobs, family="reverse"))
    out += modcheck.enumerated(rnd, ["reverse_qubit_order"], "reverse-on-every-structured-program",
                               before=((), ("unroll",), ("validate",)),
                               after=((), ("reverse_qubit_order",), ("unroll", "reverse_qubit_order"), ("remove_idle_qubits",)))
    return out


def run(tier, seed, replay):
    if replay:
        return modcheck.replay_cmd(PROP, replay)
    return modcheck.run(PROP, tier, seed, make_cases, failed_call_after=("reverse_qubit_order",))
