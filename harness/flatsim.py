"""Flat (unrolled) programs as op tuples, the flatness predicate of C03, and a small branching
process simulator used only to search for failing inputs (never as a proof).

ops: ("include", f) ("qreg", name, size) ("creg", name, size)
     ("gate", name, [args], [(reg, idx)], [mods]) ("gphase", angle, [(reg, idx)])
     ("measure", (qreg, i), (creg, j)) ("reset", (reg, i)) ("barrier", [(reg, idx)])
     ("if", (creg, idx|None, value), then_ops, else_ops)
"""
import cmath

import numpy as np
import openqasm3.ast as qa

import gatenum


class NotFlat(Exception):
    pass


def _pv(v):
    """a literal read out of a numpy array carries a numpy scalar; it prints and reloads as the same literal"""
    import ir
    return ir.pyval_plain(v)


def _lit(e):
    if isinstance(e, (qa.IntegerLiteral, qa.FloatLiteral, qa.BooleanLiteral)):
        return _pv(e.value)
    if isinstance(e, qa.UnaryExpression) and e.op.name == "-" and isinstance(e.expression, (qa.IntegerLiteral, qa.FloatLiteral)):
        return -_pv(e.expression.value)
    raise NotFlat("non-literal %s" % type(e).__name__)


def _bit(q):
    if not isinstance(q, qa.IndexedIdentifier):
        raise NotFlat("operand is not an indexed identifier")
    if len(q.indices) != 1 or isinstance(q.indices[0], qa.DiscreteSet) or len(q.indices[0]) != 1:
        raise NotFlat("operand index shape")
    v = _lit(q.indices[0][0])
    if isinstance(v, bool) or not isinstance(v, int):
        raise NotFlat("operand index is not an int literal")
    return (q.name.name, v)


def from_ast(stmts, strict=True):
    """openqasm3 statements of an unrolled program -> ops; raises NotFlat on anything that is not
    a flat statement in the sense of property C03"""
    ops = []
    for s in stmts:
        if isinstance(s, qa.Include):
            ops.append(("include", s.filename))
        elif isinstance(s, qa.QubitDeclaration):
            ops.append(("qreg", s.qubit.name, 1 if s.size is None else _lit(s.size)))
            if s.size is None and strict:
                raise NotFlat("qubit declaration without literal size")
        elif isinstance(s, qa.ClassicalDeclaration):
            if not isinstance(s.type, qa.BitType):
                raise NotFlat("classical variable declaration")
            init = None
            if s.init_expression is not None:
                try:
                    init = _lit(s.init_expression)
                except NotFlat:
                    raise NotFlat("bit declaration with unevaluated initialiser")
            if s.type.size is None and strict:
                raise NotFlat("bit declaration without literal size")
            ops.append(("creg", s.identifier.name, 1 if s.type.size is None else _lit(s.type.size)) + (() if init is None else (("init", init),)))
        elif isinstance(s, qa.QuantumGate):
            args = []
            for a in s.arguments:
                v = _lit(a)
                if isinstance(v, bool) or not isinstance(v, (int, float)):
                    raise NotFlat("gate parameter is not a numeric literal: %r" % (v,))
                args.append(v)
            mods = []
            for m in s.modifiers:
                if m.modifier.name != "inv":
                    raise NotFlat("modifier %s in output" % m.modifier.name)
                mods.append("MInv")
            ops.append(("gate", s.name.name, args, [_bit(q) for q in s.qubits], mods))
        elif isinstance(s, qa.QuantumPhase):
            v = _lit(s.argument)
            if isinstance(v, bool) or not isinstance(v, (int, float)):
                raise NotFlat("gphase argument is not a numeric literal")
            if s.modifiers:
                raise NotFlat("modifier on gphase")
            ops.append(("gphase", v, [_bit(q) for q in (s.qubits or [])]))
        elif isinstance(s, qa.QuantumMeasurementStatement):
            if s.target is None:
                raise NotFlat("measurement without target")
            ops.append(("measure", _bit(s.measure.qubit), _bit(s.target)))
        elif isinstance(s, qa.QuantumReset):
            ops.append(("reset", _bit(s.qubits)))
        elif isinstance(s, qa.QuantumBarrier):
            ops.append(("barrier", [_bit(q) for q in s.qubits]))
        elif isinstance(s, qa.BranchingStatement):
            c = s.condition
            if not (isinstance(c, qa.BinaryExpression) and c.op.name == "=="):
                raise NotFlat("condition shape")
            if isinstance(c.lhs, qa.IndexExpression) and isinstance(c.lhs.collection, qa.Identifier) \
                    and isinstance(c.lhs.index, list) and len(c.lhs.index) == 1:
                reg, i = c.lhs.collection.name, _lit(c.lhs.index[0])
            elif isinstance(c.lhs, qa.Identifier):
                reg, i = c.lhs.name, None
            else:
                raise NotFlat("condition lhs")
            ops.append(("if", (reg, i, _lit(c.rhs)), from_ast(s.if_block, strict), from_ast(s.else_block, strict)))
        else:
            raise NotFlat("statement %s" % type(s).__name__)
    return ops


def check_ranges(ops, qregs=None, cregs=None):
    """operands within their registers, no duplicated qubit in one gate"""
    qregs = {} if qregs is None else qregs
    cregs = {} if cregs is None else cregs
    for o in ops:
        if o[0] == "qreg":
            qregs[o[1]] = o[2]
        elif o[0] == "creg":
            cregs[o[1]] = o[2]
        elif o[0] in ("gate", "gphase", "barrier", "reset"):
            qs = o[3] if o[0] == "gate" else o[2] if o[0] == "gphase" else o[1] if o[0] == "barrier" else [o[1]]
            for r, i in qs:
                if r not in qregs or not 0 <= i < qregs[r]:
                    raise NotFlat("operand %s[%s] outside its register" % (r, i))
            if o[0] == "gate" and len(set(qs)) != len(qs):
                raise NotFlat("duplicated qubit operand in emitted gate %s %s" % (o[1], qs))
        elif o[0] == "measure":
            (r, i), (c, j) = o[1], o[2]
            if r not in qregs or not 0 <= i < qregs[r] or c not in cregs or not 0 <= j < cregs[c]:
                raise NotFlat("measurement operand outside its register")
        elif o[0] == "if":
            reg, i, _ = o[1]
            if reg not in cregs or (i is not None and not 0 <= i < cregs[reg]):
                raise NotFlat("condition bit outside its register")
            check_ranges(o[2], qregs, cregs)
            check_ranges(o[3], qregs, cregs)


# ---------------- process simulation ----------------
class TooBig(Exception):
    pass


def layout(ops):
    off, n = {}, 0
    coff, m = {}, 0
    for o in ops:
        if o[0] == "qreg":
            off[o[1]] = n
            n += o[2]
        elif o[0] == "creg":
            coff[o[1]] = (m, o[2])
            m += o[2]
    return off, n, coff, m


def simulate(ops, max_qubits=6, max_branches=64, defs=None):
    """returns (n, [(cmem tuple, branch label tuple, Kraus matrix)]) in a canonical branch order"""
    off, n, coff, m = layout(ops)
    if n > max_qubits:
        raise TooBig("%d qubits" % n)
    dim = 2 ** n
    branches = [((0,) * m, (), np.eye(dim, dtype=complex))]

    def proj(q, v):
        P = np.zeros((2, 2), dtype=complex)
        P[v, v] = 1
        return P

    def run(oplist, branches):
        for o in oplist:
            k = o[0]
            if k in ("qreg", "creg", "include", "barrier"):
                continue
            if k == "gate":
                _, name, args, qs, mods = o
                try:
                    M = gatenum.basis_matrix(name, [float(a) for a in args])
                except KeyError:
                    # a kept (external) library gate: its defining unitary (spec/gates_spec.py)
                    M = np.array(gatenum.gates_spec.numeric(name, [float(a) for a in args]), dtype=complex)
                if len(mods) % 2 == 1:
                    M = M.conj().T
                idx = [off[r] + i for r, i in qs]
                branches = [(c, l, gatenum.apply_gate(K, M, idx, n)) for c, l, K in branches]
            elif k == "gphase":
                ph = cmath.exp(1j * float(o[1]))
                branches = [(c, l, ph * K) for c, l, K in branches]
            elif k == "measure":
                (r, i), (cr, j) = o[1], o[2]
                q = off[r] + i
                pos = coff[cr][0] + j
                nb = []
                for c, l, K in branches:
                    for v in (0, 1):
                        c2 = list(c)
                        c2[pos] = v
                        nb.append((tuple(c2), l + (v,), gatenum.apply_gate(K, proj(q, v), [q], n)))
                branches = nb
            elif k == "reset":
                q = off[o[1][0]] + o[1][1]
                nb = []
                X = np.array([[0, 1], [1, 0]], dtype=complex)
                for c, l, K in branches:
                    nb.append((c, l + (0,), gatenum.apply_gate(K, proj(q, 0), [q], n)))
                    nb.append((c, l + (1,), gatenum.apply_gate(gatenum.apply_gate(K, proj(q, 1), [q], n), X, [q], n)))
                branches = nb
            elif k == "if":
                reg, i, val = o[1]
                base, size = coff[reg]
                nb = []
                for c, l, K in branches:
                    if i is None:
                        cur = sum(c[base + t] << t for t in range(size))
                        taken = cur == int(val)
                    else:
                        taken = bool(c[base + i]) == bool(val)
                    nb += run(o[2] if taken else o[3], [(c, l, K)])
                branches = nb
            if len(branches) > max_branches:
                raise TooBig("branches")
        return branches

    return n, run(ops, branches)


def process_equal(ops_a, ops_b, tol=1e-8):
    """same declarations, same branch structure and classical memory, Kraus operators equal up to
    a phase per branch.  returns (equal?, reason)"""
    da = [o for o in ops_a if o[0] in ("qreg", "creg")]
    db = [o for o in ops_b if o[0] in ("qreg", "creg")]
    if da != db:
        return False, "declarations differ"
    na, ba = simulate(ops_a)
    nb, bb = simulate(ops_b)
    if len(ba) != len(bb):
        return False, "different number of measurement/reset branches"
    for (ca, la, Ka), (cb, lb, Kb) in zip(ba, bb):
        if la != lb or ca != cb:
            return False, "classical memory differs on branch %s" % (la,)
        if not gatenum.phase_equal(Ka, Kb, tol):
            return False, "state transformation differs on branch %s" % (la,)
    return True, ""


def per_bit_sequences(ops):
    """per qubit / classical bit: the sequence of operations touching it (C02)"""
    seq = {}

    def walk(oplist, ctx):
        for o in oplist:
            k = o[0]
            if k == "gate":
                for pos, b in enumerate(o[3]):
                    seq.setdefault(("q",) + b, []).append(ctx + (o[1], pos, len(o[3]), tuple(o[4])))
            elif k == "measure":
                seq.setdefault(("q",) + o[1], []).append(ctx + ("measure", o[2]))
                seq.setdefault(("c",) + o[2], []).append(ctx + ("measure", o[1]))
            elif k == "reset":
                seq.setdefault(("q",) + o[1], []).append(ctx + ("reset",))
            elif k == "barrier":
                for b in o[1]:
                    seq.setdefault(("q",) + b, []).append(ctx + ("barrier",))
            elif k == "if":
                walk(o[2], ctx + (("if",) + tuple(o[1]),))
                walk(o[3], ctx + (("else",) + tuple(o[1]),))
    walk(ops, ())
    return seq


def depth_basis(ops):
    """critical-path length of a flat program whose gates are all source-level applications
    (one step per gate/measure/reset, one synchronising step per barrier statement group)"""
    d = {}

    def walk(oplist):
        for o in oplist:
            k = o[0]
            if k == "gate":
                m = 1 + max(d.get(("q",) + b, 0) for b in o[3])
                for b in o[3]:
                    d[("q",) + b] = m
            elif k == "measure":
                m = 1 + max(d.get(("q",) + o[1], 0), d.get(("c",) + o[2], 0))
                d[("q",) + o[1]] = m
                d[("c",) + o[2]] = m
            elif k == "reset":
                d[("q",) + o[1]] = d.get(("q",) + o[1], 0) + 1
            elif k == "if":
                walk(o[2])
                walk(o[3])
    walk(ops)
    return max(d.values(), default=0)
