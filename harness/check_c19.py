"""C19: OpenQASM 2 programs stay OpenQASM 2 and convert faithfully to OpenQASM 3."""
import multiprocessing
import random
import re

import common
import flatsim
import gen
import langcheck

PROP = "C19"
H2 = 'OPENQASM 2.0;\ninclude "qelib1.inc";\n'
# qelib1 names pyqasm lowers without gphase, and those whose lowering contains a gphase
QELIB = {"u3": (3, 1), "u2": (2, 1), "u1": (1, 1), "cx": (0, 2), "id": (0, 1), "x": (0, 1), "y": (0, 1), "z": (0, 1), "h": (0, 1),
         "s": (0, 1), "sdg": (0, 1), "t": (0, 1), "tdg": (0, 1), "rx": (1, 1), "ry": (1, 1), "rz": (1, 1), "cz": (0, 2), "cy": (0, 2),
         "ch": (0, 2), "ccx": (0, 3), "crz": (1, 2), "cu1": (1, 2), "cu3": (3, 2), "swap": (0, 2), "cswap": (0, 3), "crx": (1, 2),
         "cry": (1, 2), "cp": (1, 2), "sx": (0, 1), "sxdg": (0, 1), "rxx": (1, 2), "rzz": (1, 2)}
NAMES_Q = ["q", "qr", "q_bit1", "qubits", "myqubit2", "bit_q", "Q0", "reg_7", "qreg1", "a_b_c", "r"]
NAMES_C = ["c", "cr", "creg0", "bits3", "c_qubit", "meas_1", "mbit", "qubit_c2"]


def qasm2_program(rnd, with_phase_gates=False):
    lines = []
    qn = rnd.sample(NAMES_Q, rnd.randint(1, 2))
    cn = rnd.sample(NAMES_C, rnd.randint(1, 2))
    qs = {n: rnd.randint(1, 3) for n in qn}
    cs = {n: rnd.randint(1, 3) for n in cn}
    for n, k in qs.items():
        lines.append("qreg %s[%d];" % (n, k))
    for n, k in cs.items():
        lines.append("creg %s[%d];" % (n, k))
    allq = [(n, i) for n, k in qs.items() for i in range(k)]
    gates = {}
    if rnd.random() < 0.6:
        np_, nq = rnd.randint(0, 2), rnd.randint(1, 2)
        ps = ["p%d" % i for i in range(np_)]
        body = []
        for _ in range(rnd.randint(1, 3)):
            g = rnd.choice(["h", "x", "rz", "rx", "cx", "u3", "s"])
            gp, gq = QELIB[g]
            if gq > nq:
                continue
            args = "(" + ", ".join(rnd.choice(ps + ["pi/2", "0.25"]) for _ in range(gp)) + ")" if gp else ""
            body.append("%s%s %s;" % (g, args, ", ".join(rnd.sample(["a%d" % i for i in range(nq)], gq))))
        lines.append("gate cg%s %s { %s }" % ("(" + ", ".join(ps) + ")" if ps else "", ", ".join("a%d" % i for i in range(nq)), " ".join(body)))
        gates["cg"] = (np_, nq)

    def operands(k):
        if len(allq) < k:
            return None
        return ", ".join("%s[%d]" % b for b in rnd.sample(allq, k))

    def gate_stmt():
        pool = dict(QELIB)
        if not with_phase_gates:
            for g in ("rxx", "rzz"):
                pool.pop(g)
        pool.update(gates)
        g = rnd.choice(sorted(pool))
        gp, gq = pool[g]
        ops = operands(gq)
        if ops is None:
            return None
        args = "(" + ", ".join(rnd.choice(["pi/2", "pi", "0.5", "-1.25", "2*pi/3", "0.1+0.2"]) for _ in range(gp)) + ")" if gp else ""
        return "%s%s %s;" % (g, args, ops)

    for _ in range(rnd.randint(3, 9)):
        c = rnd.random()
        if c < 0.55:
            s = gate_stmt()
        elif c < 0.65:
            q, cbit = rnd.choice(allq), rnd.choice([(n, i) for n, k in cs.items() for i in range(k)])
            s = "measure %s[%d] -> %s[%d];" % (q + cbit)
        elif c < 0.7:
            # whole-register measurement when sizes match
            pairs = [(a, b) for a in qs for b in cs if qs[a] == cs[b]]
            s = "measure %s -> %s;" % rnd.choice(pairs) if pairs else None
        elif c < 0.78:
            s = "reset %s[%d];" % rnd.choice(allq)
        elif c < 0.88:
            s = rnd.choice(["barrier %s;" % rnd.choice(sorted(qs)), "barrier %s;" % operands(min(2, len(allq)))])
        elif c < 0.95:
            reg = rnd.choice(sorted(cs))
            inner = gate_stmt()
            s = "if (%s == %d) %s" % (reg, rnd.randint(0, 2 ** cs[reg] - 1), inner) if inner else None
        else:
            s = "h %s;" % rnd.choice(sorted(qs))      # broadcast
        if s:
            lines.append(s)
    return H2 + "\n".join(lines) + "\n"


NON_SUBSET = ["for int i in [0:1] { h q[0]; }", "def f(qubit a) { h a; }", "int[8] k = 1;", "while (true) { h q[0]; }",
              "let a = q;", "switch (1) { case 1 { h q[0]; } }", "const int k = 2;", "gphase(0.5);", "k = 1;"]


def cases(tier, seed):
    rnd = random.Random(seed)
    out = []
    n = 250 if tier == "quick" else 4000
    for _ in range(n):
        out.append(dict(src=qasm2_program(rnd), family="random-qasm2"))
    for _ in range(n // 5):
        out.append(dict(src=qasm2_program(rnd, with_phase_gates=True), family="random-qasm2-with-rxx-rzz"))
    # self-contained programs: no include, only the built-in U and CX and gates defined from them
    for qn, cn in (("q", "c"), ("q_data", "c_out"), ("Q0", "meas_1"), ("a_b_c", "bits3")):
        for body in ("mygate %s[0], %s[1];\nmeasure %s -> %s;" % (qn, qn, qn, cn),
                     "U(0.5, 0.25, 0.125) %s[1];\nCX %s[1], %s[0];\nbarrier %s;\nmeasure %s[0] -> %s[1];\nif(%s==2) mygate %s[1], %s[0];" % (qn, qn, qn, qn, qn, cn, cn, qn, qn),
                     "mygate %s[1], %s[0];\nreset %s[0];\nCX %s[0], %s[1];" % (qn, qn, qn, qn, qn)):
            out.append(dict(src="OPENQASM 2.0;\nqreg %s[2];\ncreg %s[2];\ngate mygate a, b { U(0.1, 0.2, 0.3) a; CX a, b; U(0, 0, 0.7) b; }\n%s\n" % (qn, cn, body),
                            family="no-include"))
    # many registers of each kind (every declaration line is rewritten, however many there are)
    for nq, nc in ((9, 2), (2, 9), (11, 10), (17, 17)):
        decl = "".join("qreg r%d[%d];\n" % (i, 1 + i % 3) for i in range(nq)) + "".join("creg m%d[%d];\n" % (i, 1 + i % 2) for i in range(nc))
        body = "".join("h r%d[0];\n" % i for i in range(nq)) + "cx r0[0], r%d[0];\n" % (nq - 1) + "".join("measure r%d[0] -> m%d[0];\n" % (i % nq, i) for i in range(nc))
        out.append(dict(src=H2 + decl + body, family="many-registers"))
    # the short version header is a version-2 program as well
    for k, c in enumerate(list(out)):
        if k % 4 == 0:
            out.append(dict(src=c["src"].replace("OPENQASM 2.0;", "OPENQASM 2;", 1), family="short-version-header"))
    for st in NON_SUBSET[::3]:
        out.append(dict(src="OPENQASM 2;\n" + H2.split("\n", 1)[1] + "qreg q[2];\ncreg c[2];\nh q[0];\n" + st + "\n", family="outside-the-subset"))
    for st in NON_SUBSET:
        out.append(dict(src=H2 + "qreg q[2];\ncreg c[2];\nh q[0];\n" + st + "\n", family="outside-the-subset"))
    return out


def classify(run, i, model):
    o = run.outcomes[i]
    v = run.verdicts[i]
    if model is None or model[0] == "unparsed":
        return None
    if v in (1, 2):
        return ("outcome", {"kind": "program", "what": "a version-2 program is accepted/rejected differently from the modelled whitelist + visit",
                            "model": model[0] if model[0] != "ok" else "accepted"})
    if o.get("unroll") == "ok" and model[0] == "ok" and o.get("ops") is not None and o["ops"] != model[1]:
        return ("circuit", {"kind": "program", "what": "the unrolled circuit of the version-2 module differs from the modelled one"})
    return None


def _worker(src):
    import logging
    logging.disable(logging.CRITICAL)
    import pyqasm
    from pyqasm.modules.qasm2 import Qasm2Module
    from pyqasm.modules.qasm3 import Qasm3Module
    r = {}
    try:
        m = pyqasm.loads(src)
    except Exception as e:
        return {"load": type(e).__name__}
    if not isinstance(m, Qasm2Module):
        return {"load": "not a Qasm2Module"}
    try:
        m.unroll()
    except pyqasm.ValidationError:
        return {"unroll": "validation"}
    except Exception as e:
        return {"unroll": "internal:" + type(e).__name__}
    ops = flatsim.from_ast(m.unrolled_ast.statements, strict=False)
    text = pyqasm.dumps(m)
    r["text"] = text
    bad = []
    if not text.startswith("OPENQASM 2.0;"):
        bad.append("version header is not 2.0")
    if re.search(r"(?m)^\s*(qubit|bit)(\[|\s)", text):
        bad.append("a version-3 declaration is printed")
    if re.search(r"(?m)=\s*measure", text):
        bad.append("a version-3 measurement assignment is printed")
    def phase_in(l):
        return any(o[0] == "gphase" or (o[0] == "if" and (phase_in(o[2]) or phase_in(o[3]))) for o in l)
    has_phase = phase_in(ops)
    r["has_phase"] = has_phase
    try:
        r2 = pyqasm.loads(text)
        if not isinstance(r2, Qasm2Module):
            bad.append("printed program does not load as a version-2 module")
        r2.unroll()
        if flatsim.from_ast(r2.unrolled_ast.statements, strict=False) != ops:
            bad.append("re-loaded version-2 program has a different circuit")
    except Exception as e:
        bad.append("printed program does not load/unroll again: %s: %s" % (type(e).__name__, str(e)[:100]))
    # a call interrupted before / during the visit (here: a misspelt keyword argument, TypeError) leaves no trace: the
    # next unroll() prints the same version-2 program as on a module that never saw the failure
    for failing in (dict(external_gate=["h"]), dict(external_gates=7)):
        try:
            mf = pyqasm.loads(src)
            try:
                mf.unroll(**failing)
                continue                     # not rejected: nothing to compare
            except Exception:
                pass
            mf.unroll()
            if pyqasm.dumps(mf) != text:
                bad.append("after an interrupted unroll(%s) the next unroll() prints a different program: %r..." % (failing, pyqasm.dumps(mf)[:60]))
            if has_phase:
                continue                     # transformations of a version-2 module holding a gphase: the known finding's business
            for step in ("remove_barriers", "reverse_qubit_order"):
                getattr(mf, step)()
            t2 = pyqasm.dumps(mf)
            if not t2.startswith("OPENQASM 2.0;") or not isinstance(pyqasm.loads(t2), Qasm2Module):
                bad.append("after an interrupted unroll(%s), unroll() and transformations the module does not print a version-2 program" % (failing,))
        except Exception as e:
            bad.append("module unusable after an interrupted unroll(%s): %s: %s" % (failing, type(e).__name__, str(e)[:100]))
    for as_str in (True, False):
        try:
            c = pyqasm.loads(src).to_qasm3(as_str=as_str)
            m3 = pyqasm.loads(c) if as_str else c
            if not isinstance(m3, Qasm3Module):
                bad.append("to_qasm3(as_str=%s) is not a version-3 module" % as_str)
            m3.unroll()
            ops3 = flatsim.from_ast(m3.unrolled_ast.statements, strict=False)
            strip = lambda l: [o for o in l if o[0] != "include"]
            if strip(ops3) != strip(ops):
                bad.append("to_qasm3(as_str=%s) unrolls to a different circuit" % as_str)
            if as_str and not c.startswith("OPENQASM 3.0;"):
                bad.append("to_qasm3 text is not version 3.0")
        except Exception as e:
            bad.append("to_qasm3(as_str=%s) fails: %s: %s" % (as_str, type(e).__name__, str(e)[:100]))
    # the converted module is independent of the version-2 module: transforming it in place changes neither
    # the version-2 module's circuit nor a later conversion
    try:
        m2 = pyqasm.loads(src)
        text3 = m2.to_qasm3(as_str=True)
        m3 = m2.to_qasm3()
        for step in ("remove_idle_qubits", "reverse_qubit_order", "remove_measurements"):
            try:
                getattr(m3, step)()
            except Exception:
                pass      # a failure of the converted module itself is C03/C16's business (gphase operands)
        m2.unroll()
        if flatsim.from_ast(m2.unrolled_ast.statements, strict=False) != ops:
            bad.append("transforming the module returned by to_qasm3() changed the version-2 module's circuit")
        if m2.to_qasm3(as_str=True) != text3:
            bad.append("transforming the module returned by to_qasm3() changed a later to_qasm3()")
    except Exception as e:
        bad.append("version-2 module unusable after transforming its to_qasm3() module: %s: %s" % (type(e).__name__, str(e)[:100]))
    r["bad"] = bad
    return r


def direct(run, chk):
    # version-2 programs inside the whole-program judgement (Props/C19.v): statements, validate(), counts and depth as the theorem says
    direct.expansion = langcheck.expansion_oracle(run, chk)
    known = {e["id"]: e for e in common.load_known(PROP)}
    srcs = [c["src"] for c in run.cases]
    with multiprocessing.Pool(12) as pool:
        res = pool.map(_worker, srcs, chunksize=10)
    nbad, checked, nphase = 0, 0, 0
    for c, r in zip(run.cases, res):
        if c["family"] == "outside-the-subset":
            if r.get("unroll") != "validation" and r.get("load") is None and nbad < 5:
                nbad += 1
                chk.violation("subset_%d" % nbad, {"kind": "program", "source": c["src"], "what": "a top-level statement outside the OpenQASM 2 subset is not rejected with ValidationError", "result": {k: v for k, v in r.items() if k != "text"}})
            continue
        if r.get("load") is not None:
            if nbad < 5:
                nbad += 1
                chk.violation("load_%d" % nbad, {"kind": "program", "source": c["src"],
                                                 "what": "a version-2 program is not loaded as a version-2 module: %s" % r["load"]})
            continue
        if "bad" not in r:
            continue
        checked += 1
        bad = r["bad"]
        if r.get("has_phase"):
            # known finding: gphase in the unrolled version-2 program
            phase_only = [b for b in bad if "load" in b and "again" in b]
            if phase_only and "C19-gphase-in-version-2-output" in known:
                nphase += 1
                bad = [b for b in bad if b not in phase_only]
        if bad and nbad < 5:
            nbad += 1
            chk.violation("qasm2_%d" % nbad, {"kind": "program", "source": c["src"], "what": "; ".join(bad), "printed": r.get("text")})
    if nphase:
        e = known["C19-gphase-in-version-2-output"]
        chk.known("%s: %s" % (e["id"], e["what"][:100]))
    direct.checked = checked
    direct.phase = nphase


def run(tier, seed, replay):
    if replay:
        return langcheck.replay_cmd(PROP, replay)
    direct.checked = direct.phase = 0
    return langcheck.standard(PROP, tier, seed, cases(tier, seed), classify, direct=direct,
                              extra_cov=lambda run: {"print_reload_to_qasm3_checked": direct.checked, "with_gphase_known_finding": direct.phase,
                                                     "whole_program_theorem_judgement_on_real_programs": getattr(direct, "expansion", {})})
