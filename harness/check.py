"""Dispatcher: ./check Cxx [--tier quick|thorough] [--replay file]"""
import argparse
import importlib
import logging
import os
import sys

sys.path.insert(0, os.path.dirname(os.path.abspath(__file__)))
logging.disable(logging.CRITICAL)


def main():
    ap = argparse.ArgumentParser()
    ap.add_argument("prop")
    ap.add_argument("--tier", default=os.environ.get("VERIF_TIER", "quick"), choices=["quick", "thorough"])
    ap.add_argument("--replay", default=None)
    a = ap.parse_args()
    seed = int(os.environ.get("VERIF_SEED", "0") or 0)
    mod = importlib.import_module("check_" + a.prop.lower())
    sys.exit(mod.run(a.tier, seed, a.replay))


if __name__ == "__main__":
    main()
