"""C16: any call sequence equals the composition of its steps."""
import itertools

import modcheck
import modcorr

PROP = "C16"


def make_cases(rnd, tier, progs):
    ps = progs(100 if tier == "quick" else 500)
    out = []
    # exhaustive: every ordered pair of in-place transformations, with and without an interleaved query
    pairs = list(itertools.product(modcorr.TRANSFORMS, repeat=2))
    for j, (a, b) in enumerate(pairs):
        src = ps[j % len(ps)]
        for mid in ([], [rnd.choice(modcorr.QUERIES)]):
            body = [(0, a, True)] + [(0, q) for q in mid] + [(0, b, True)]
            hist, nobs = modcheck.hist_with_obs(rnd, body, 1)
            out.append(dict(src=src, hist=hist, nobs=nobs, family="all-pairs"))
    # ... and every ordered pair on every structured program
    for src in modcheck.FIXED_PROGRAMS:
        for a, b in pairs:
            hist, nobs = modcheck.hist_with_obs(rnd, [(0, a, True), (0, b, True)], 1)
            out.append(dict(src=src, hist=hist, nobs=nobs, family="all-pairs-on-every-structured-program"))
    out += modcheck.conversion_histories(rnd, "conversion-in-a-history")
    n = 600 if tier == "quick" else 10000
    for k in range(n):
        src = ps[k % len(ps)]
        body, nmod = modcorr.random_history(rnd, rnd.randint(3, 8 if tier == "quick" else 12), two_modules=(rnd.random() < 0.4), p_transform=0.55)
        hist, nobs = modcheck.hist_with_obs(rnd, body, nmod)
        out.append(dict(src=src, hist=hist, nobs=nobs, family="random-sequences"))
    if tier != "quick":
        for a, b, c in itertools.product(modcorr.TRANSFORMS, repeat=3):
            src = ps[rnd.randrange(len(ps))]
            hist, nobs = modcheck.hist_with_obs(rnd, [(0, a, True), (0, b, True), (0, c, True)], 1)
            out.append(dict(src=src, hist=hist, nobs=nobs, family="all-triples"))
    return out


def run(tier, seed, replay):
    if replay:
        return modcheck.replay_cmd(PROP, replay)
    return modcheck.run(PROP, tier, seed, make_cases, failed_call_after=("remove_barriers", "remove_measurements", "reverse_qubit_order", "remove_idle_qubits", "populate_idle_qubits"))
