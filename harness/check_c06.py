"""C06: gate modifiers denote inverse and integer powers."""
import itertools
import math
import random

import common
import flatsim
import gen
import langcheck

PROP = "C06"
CUSTOM = ("gate cg(a) x, y { rx(a) x; cx x, y; s y; crz(a) y, x; }\n"
          "gate ng(b) x, y, z { cg(0.25) x, y; t z; inv @ cg(b) y, z; pow(2) @ rzz(b) x, z; gphase(0.125); }\n"
          "gate dg x { pow(3) @ inv @ sdg x; ng(0.5) x, x2, x3; }\n")
CUSTOM = CUSTOM.replace("gate dg x { pow(3) @ inv @ sdg x; ng(0.5) x, x2, x3; }\n",
                        "gate dg x, y, z { pow(3) @ inv @ sdg x; inv @ ng(0.5) z, y, x; }\n")


def lib_call(rnd, name):
    p, q = gen.LIB[name]
    ps = "(" + ", ".join(gen.fmt_float(round(rnd.uniform(-6, 6), 3)) for _ in range(p)) + ")" if p else ""
    return "%s%s %s" % (name, ps, ", ".join("q[%d]" % i for i in range(q))), q


def cases(tier, seed):
    rnd = random.Random(seed)
    out = []
    for s in gen.modifier_cases(rnd):
        out.append(dict(src=s, family="modifier-stacks"))
    # every library name under inv / pow(2) / pow(-1) / inv inv
    for name in gen.LIB:
        call, q = lib_call(rnd, name)
        for st in ("inv @ ", "pow(2) @ ", "pow(-1) @ ", "inv @ inv @ ", "pow(0) @ "):
            out.append(dict(src=gen.H3 + "qubit[%d] q;\n%s%s;\n" % (max(q, 1), st, call), family="library-names"))
    # nested custom gates under random stacks
    mods = ["inv", "pow(-2)", "pow(-1)", "pow(0)", "pow(1)", "pow(2)", "pow(3)"]
    n = 60 if tier == "quick" else 1500
    for _ in range(n):
        st = "".join(rnd.choice(mods) + " @ " for _ in range(rnd.randint(1, 4)))
        g = rnd.choice(["cg(%s) q[0], q[1]" % gen.fmt_float(round(rnd.uniform(-3, 3), 2)),
                        "ng(%s) q[2], q[0], q[1]" % gen.fmt_float(round(rnd.uniform(-3, 3), 2)), "dg q[1], q[2], q[0]", "dg q"])
        out.append(dict(src=gen.H3 + "qubit[3] q;\n" + CUSTOM + st + g + ";\n", family="nested-custom"))
    return out


def classify(run, i, model):
    o = run.outcomes[i]
    v = run.verdicts[i]
    if model is None or model[0] == "unparsed":
        return None
    if v in (1, 2):
        return ("outcome", {"kind": "program", "what": "a modified call is accepted/rejected differently from the modelled modifier semantics",
                            "model": model[0] if model[0] != "ok" else "accepted"})
    if o.get("unroll") == "ok" and model[0] == "ok" and o.get("ops") is not None and o["ops"] != model[1]:
        return ("expansion", {"kind": "program", "what": "expansion of the modified call differs from (power, parity) applied to the gate",
                              "expected_ops": str(model[1])[:600], "got_ops": str(o["ops"])[:600]})
    return None


def _unroll_ops(src):
    import logging
    logging.disable(logging.CRITICAL)
    import pyqasm
    try:
        m = pyqasm.loads(src)
        m.unroll()
        return "ok", flatsim.from_ast(m.unrolled_ast.statements, strict=False)
    except pyqasm.ValidationError:
        return "validation", None
    except Exception as e:
        return "internal:" + type(e).__name__, None


def direct(run, chk):
    """oracles on the real code alone: G ; inv @ G is the identity, pow(k) is k copies, pow(-k) is k inverse
    copies, permuted stacks agree (as processes, up to a global phase)"""
    rnd = random.Random(chk.seed + 5)
    nbad = 0
    checked = {"inverse": 0, "power": 0, "negative-power": 0, "order": 0, "rejected": 0}

    def bad(tag, payload):
        nonlocal nbad
        nbad += 1
        if nbad <= 5:
            chk.violation("%s_%d" % (tag, nbad), payload)

    gates = []
    for name in gen.LIB:
        for _ in range(1 if chk.tier == "quick" else 6):
            call, q = lib_call(rnd, name)
            gates.append((gen.H3 + "qubit[%d] q;\n" % max(q, 1), call))
    for g in ["cg(0.7) q[0], q[1]", "ng(-1.3) q[2], q[0], q[1]", "dg q[1], q[2], q[0]"]:
        gates.append((gen.H3 + "qubit[3] q;\n" + CUSTOM, g))
    for pre, call in gates:
        st, inv_ops = _unroll_ops(pre + "inv @ " + call + ";\n")
        if st != "ok":
            checked["rejected"] += 1
            continue      # rejected rather than expanded: allowed by the property
        st2, both = _unroll_ops(pre + call + ";\ninv @ " + call + ";\n")
        st0, none = _unroll_ops(pre)
        if st2 != "ok":
            continue
        try:
            eq, why = flatsim.process_equal(both, none)
        except flatsim.TooBig:
            continue
        checked["inverse"] += 1
        if not eq:
            bad("inverse", {"kind": "program", "source": pre + call + ";\ninv @ " + call + ";\n", "what": "G followed by inv @ G is not the identity: " + why})
        for k in (2, 3):
            stp, pw = _unroll_ops(pre + "pow(%d) @ %s;\n" % (k, call))
            stc, cp = _unroll_ops(pre + (call + ";\n") * k)
            if stp == "ok" and stc == "ok":
                checked["power"] += 1
                if pw != cp:
                    bad("power", {"kind": "program", "source": pre + "pow(%d) @ %s;\n" % (k, call), "what": "pow(k) @ G is not G repeated k times"})
            stn, ng = _unroll_ops(pre + "pow(-%d) @ %s;\n" % (k, call))
            sti, ic = _unroll_ops(pre + ("inv @ " + call + ";\n") * k)
            if stn == "ok" and sti == "ok":
                checked["negative-power"] += 1
                if ng != ic:
                    bad("negpower", {"kind": "program", "source": pre + "pow(-%d) @ %s;\n" % (k, call), "what": "pow(-k) @ G is not inv @ G repeated k times"})
        stz, z = _unroll_ops(pre + "pow(0) @ " + call + ";\n")
        if stz == "ok" and z != none:
            bad("powzero", {"kind": "program", "source": pre + "pow(0) @ " + call + ";\n", "what": "pow(0) @ G is not empty"})
        stack = [rnd.choice(["inv", "pow(2)", "pow(-1)", "pow(-2)"]) for _ in range(3)]
        ref = None
        for perm in set(itertools.permutations(stack)):
            stq, ops = _unroll_ops(pre + "".join(m + " @ " for m in perm) + call + ";\n")
            if stq != "ok":
                continue
            checked["order"] += 1
            if ref is None:
                ref = (perm, ops)
            else:
                try:
                    eq, why = flatsim.process_equal(ref[1], ops)
                except flatsim.TooBig:
                    continue
                if not eq:
                    bad("order", {"kind": "program", "source": pre + "".join(m + " @ " for m in perm) + call + ";\n",
                                  "what": "modifier stacks %s and %s differ: %s" % (ref[0], perm, why)})
    direct.checked = checked
    # the whole-program theorem (modified basis gates unroll to repetitions, Lang/ModUnrollProofs.v) on every case it applies to
    direct.expansion = langcheck.expansion_oracle(run, chk)


def run(tier, seed, replay):
    if replay:
        return langcheck.replay_cmd(PROP, replay)
    direct.checked = {}
    return langcheck.standard(PROP, tier, seed, cases(tier, seed), classify, direct=direct,
                              extra_cov=lambda run: {"real_code_oracles": direct.checked, "whole_program_theorem_judgement_on_real_programs": getattr(direct, "expansion", {})},
                              trusted=["harness/flatsim.py, harness/gatenum.py (numeric simulator used as search oracle)",
                                       "spec/gates_spec.py (defining unitaries)", "axioms of Reals (library inverse theorem)"])
