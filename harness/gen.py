"""Program generators for the language-layer correspondence (all randomness from one seeded
random.Random; enumerators are exhaustive over small scopes)."""
import itertools
import math
import os
import sys

HERE = os.path.dirname(os.path.abspath(__file__))
sys.path.insert(0, os.path.join(HERE, "..", "spec"))
import gates_spec  # noqa: E402

H3 = 'OPENQASM 3.0;\ninclude "stdgates.inc";\n'

# library gates: name -> (nparams, arity); ms is opaque to the model
LIB = {n: (p, q) for n, (p, q, _) in gates_spec.SPECS.items()}
BASIS_1Q = ["h", "x", "y", "z", "s", "t", "sdg", "tdg", "sx", "id"]
BASIS_ROT = ["rx", "ry", "rz"]
BASIS_2Q = ["cx", "cz", "swap"]
SELF_INV_OK = ["h", "x", "y", "z", "id", "s", "t", "sdg", "tdg", "rx", "ry", "rz", "u3", "u2", "U", "cx", "cz", "swap", "ccx"]


def fmt_float(f):
    r = repr(float(f))
    if "e" in r or "inf" in r or "nan" in r:
        return "%.6f" % f
    return r


class G:
    """random program generator with a symbol table so that most programs are valid"""

    def __init__(self, rnd, profile=None):
        self.r = rnd
        self.p = dict(gates=5, mods=2, measure=2, reset=1, barrier=1, if_ct=2, if_meas=1, for_=2, switch=1,
                      alias=1, assign=2, decl=2, call=2, custom=2, phase=1, basis_only=False, depth=2)
        if profile:
            self.p.update(profile)
        self.lines = []
        self.qregs = {}
        self.cregs = {}
        self.aliases = {}
        self.scopes = [{}]        # name -> (kind, width, const)
        self.gates = {}           # name -> (nparams, nqubits)
        self.subs = {}            # name -> (list of ('q', size) | ('c', kind, width), ret or None)
        self.uid = 0
        self.in_def = None        # formal qubit registers when generating inside a def
        self.feat = {}

    def note(self, f):
        self.feat[f] = self.feat.get(f, 0) + 1

    def fresh(self, pre):
        self.uid += 1
        return "%s%d" % (pre, self.uid)

    # ---------- expressions ----------
    def visible(self, kinds, need_const=False):
        out = []
        for i, sc in enumerate(reversed(self.scopes)):
            for n, (k, w, c) in sc.items():
                if k in kinds and (c or not need_const):
                    if self.in_def is not None and i == len(self.scopes) - 1 and not c:
                        continue   # globals that are not const are invisible inside a def
                    out.append(n)
        return out

    def int_expr(self, depth=2, small=True):
        r = self.r
        if depth <= 0 or r.random() < 0.35:
            vs = self.visible(("int", "uint"))
            if vs and r.random() < 0.5:
                return r.choice(vs)
            return str(r.randint(0, 5) if small else r.randint(-20, 40))
        op = r.choice(["+", "-", "*", "+", "-", "%", "&", "|", "^", "<<", ">>"])
        a, b = self.int_expr(depth - 1, small), self.int_expr(depth - 1, small)
        if op in ("<<", ">>"):
            b = str(r.randint(0, 3))
        if op == "%":
            b = str(r.randint(1, 5))
        return "(%s %s %s)" % (a, op, b)

    def float_expr(self, depth=2):
        r = self.r
        if depth <= 0 or r.random() < 0.35:
            vs = self.visible(("float",))
            c = r.random()
            if vs and c < 0.35:
                return r.choice(vs)
            if c < 0.55:
                return r.choice(["pi", "tau", "euler", "pi / 2", "-pi / 4"])
            if c < 0.7:
                return self.int_expr(1)
            return fmt_float(round(r.uniform(-4, 4), r.randint(1, 3)))
        op = r.choice(["+", "-", "*", "/"])
        a, b = self.float_expr(depth - 1), self.float_expr(depth - 1)
        if op == "/":
            b = r.choice(["2", "4", "3.0", "pi"])
        return "(%s %s %s)" % (a, op, b)

    def bool_expr(self, depth=1):
        r = self.r
        c = r.random()
        if c < 0.4:
            return "%s %s %s" % (self.int_expr(1), r.choice(["<", ">", "<=", ">=", "==", "!="]), self.int_expr(1))
        if c < 0.55:
            vs = self.visible(("bool",))
            if vs:
                return r.choice(vs)
            return r.choice(["true", "false"])
        if c < 0.7 and depth > 0:
            return "(%s) %s (%s)" % (self.bool_expr(depth - 1), r.choice(["&&", "||"]), self.bool_expr(depth - 1))
        if c < 0.8:
            return "!(%s)" % self.bool_expr(0)
        return "%s %s %s" % (self.float_expr(1), r.choice(["<", ">"]), self.float_expr(1))

    # ---------- operands ----------
    def regs(self):
        if self.in_def is not None:
            return dict(self.in_def)
        d = dict(self.qregs)
        d.update(self.aliases)
        return d

    def operand_forms(self, reg, size):
        r = self.r
        forms = []
        i = r.randrange(size)
        forms.append(("%s[%d]" % (reg, i), [i]))
        forms.append((reg, list(range(size))))
        a = r.randrange(size)
        b = r.randint(a + 1, size)
        forms.append(("%s[%d:%d]" % (reg, a, b), list(range(a, b))))
        if size >= 2:
            st = r.choice([2, 2, 3])
            forms.append(("%s[%d:%d:%d]" % (reg, a, st, size), list(range(a, size, st))))
            forms.append(("%s[:%d]" % (reg, b), list(range(0, b))))
            forms.append(("%s[%d:]" % (reg, a), list(range(a, size))))
            k = r.randint(1, min(3, size))
            ids = r.sample(range(size), k)
            forms.append(("%s[{%s}]" % (reg, ", ".join(map(str, ids))), ids))
        vs = self.visible(("int", "uint"))
        return forms

    def pick_operands(self, arity, max_groups=2):
        """operands whose expansion has arity*m distinct qubits"""
        r = self.r
        regs = self.regs()
        if not regs:
            return None
        for _ in range(12):
            m = 1 if r.random() < 0.7 else r.randint(1, max_groups)
            ops, used = [], []
            tries = 0
            while len(used) < arity * m and tries < 20:
                tries += 1
                reg = r.choice(list(regs))
                size = regs[reg]
                txt, ids = r.choice(self.operand_forms(reg, size)) if r.random() < 0.45 else \
                    (lambda i: ("%s[%d]" % (reg, i), [i]))(r.randrange(size))
                keys = [(self.root(reg, i)) for i in ids]
                if any(k in used for k in keys) or len(set(keys)) != len(keys) or not ids:
                    continue
                if len(used) + len(keys) > arity * m:
                    continue
                ops.append(txt)
                used += keys
            if len(used) == arity * m and used:
                if any("{" in o or ":" in o for o in ops):
                    self.note("operand:slice/set")
                if m > 1 or any("[" not in o for o in ops):
                    self.note("operand:broadcast/whole")
                return ", ".join(ops)
        return None

    def root(self, reg, i):
        if reg in self.alias_map:
            return self.alias_map[reg][i]
        return (reg, i)

    alias_map = {}

    # ---------- statements ----------
    def emit(self, s, ind):
        self.lines.append("  " * ind + s)

    def gate_call(self, ind, in_gate_body=None):
        r = self.r
        pool = []
        if self.p["basis_only"]:
            pool = [(n, LIB[n]) for n in BASIS_1Q + BASIS_ROT + BASIS_2Q + ["ccx"]]
        else:
            pool = [(n, LIB[n]) for n in LIB]
        custom = [(n, v) for n, v in self.gates.items()]
        if custom and r.random() < self.p["custom"] / 6.0:
            name, (np_, nq) = r.choice(custom)
            self.note("custom-gate-call")
            is_custom = True
        else:
            name, (np_, nq) = r.choice(pool)
            is_custom = False
        params = ""
        if np_:
            params = "(" + ", ".join(self.float_expr(r.randint(0, 2)) for _ in range(np_)) + ")"
        mods = ""
        if r.random() < self.p["mods"] / 10.0:
            ms = []
            for _ in range(r.randint(1, 3)):
                ms.append(r.choice(["inv @ ", "pow(2) @ ", "pow(0) @ ", "pow(-1) @ ", "pow(3) @ ", "inv @ "]))
            if not is_custom and name not in SELF_INV_OK and r.random() < 0.8:
                ms = [m for m in ms if m.startswith("pow(") and "-" not in m]
            vs = self.visible(("int", "uint")) if in_gate_body is None else []
            if vs and r.random() < 0.4:
                # an exponent that depends on a variable (a loop variable, an accumulated value): 0..3 whatever it holds
                ms = [("pow(%s %% 4) @ " % r.choice(vs)) if (m.startswith("pow(") and r.random() < 0.7) else m for m in ms]
                self.note("modifier-exponent-from-variable")
            mods = "".join(ms)
            if mods:
                self.note("modifiers")
        if in_gate_body is not None:
            qs = r.sample(in_gate_body, nq) if nq <= len(in_gate_body) else None
            if qs is None:
                return
            self.emit("%s%s%s %s;" % (mods, name, params, ", ".join(qs)), ind)
            return
        ops = self.pick_operands(nq, 1 if is_custom else 2)
        if ops is None:
            return
        self.note("gate")
        self.emit("%s%s%s %s;" % (mods, name, params, ops), ind)

    def stmt(self, ind, depth):
        r = self.r
        p = self.p
        choices = [("gate", p["gates"]), ("measure", p["measure"]), ("reset", p["reset"]), ("barrier", p["barrier"]),
                   ("if_ct", p["if_ct"] if depth > 0 else 0), ("if_meas", p["if_meas"] if depth > 0 else 0),
                   ("for", p["for_"] if depth > 0 else 0), ("switch", p["switch"] if depth > 0 else 0),
                   ("alias", p["alias"]), ("assign", p["assign"]), ("decl", p["decl"]), ("call", p["call"]),
                   ("phase", p["phase"])]
        tot = sum(w for _, w in choices)
        x = r.uniform(0, tot)
        for k, w in choices:
            x -= w
            if x <= 0:
                break
        if k == "gate":
            self.gate_call(ind)
        elif k == "phase":
            self.note("gphase")
            self.emit("%sgphase(%s);" % (r.choice(["", "", "inv @ ", "pow(2) @ "]), self.float_expr(1)), ind)
        elif k == "measure" and self.cregs and self.in_def is None and self.qregs:
            q = r.choice(list(self.qregs))
            c = r.choice(list(self.cregs))
            if r.random() < 0.3 and self.qregs[q] == self.cregs[c]:
                self.emit("%s = measure %s;" % (c, q), ind)
            else:
                self.emit("%s[%d] = measure %s[%d];" % (c, r.randrange(self.cregs[c]), q, r.randrange(self.qregs[q])), ind)
            self.note("measure")
        elif k == "reset":
            ops = self.pick_operands(1, 1)
            if ops and "," not in ops:
                self.emit("reset %s;" % ops, ind)
                self.note("reset")
        elif k == "barrier":
            n = r.randint(1, 3)
            ops = self.pick_operands(n, 1)
            if ops:
                self.emit("barrier %s;" % ops, ind)
                self.note("barrier")
        elif k == "if_ct":
            self.note("if-compile-time")
            self.emit("if (%s) {" % self.bool_expr(), ind)
            self.block(ind + 1, depth - 1, r.randint(1, 2))
            if r.random() < 0.5:
                self.emit("} else {", ind)
                self.block(ind + 1, depth - 1, r.randint(1, 2))
            self.emit("}", ind)
        elif k == "if_meas" and self.cregs and self.in_def is None:
            c = r.choice(list(self.cregs))
            i = r.randrange(self.cregs[c])
            cond = r.choice(["%s[%d] == 1" % (c, i), "%s[%d] == 0" % (c, i), "%s[%d]" % (c, i), "!%s[%d]" % (c, i),
                             "%s == %d" % (c, r.randint(0, 3)), "%s[%d] == true" % (c, i)])
            self.note("if-measurement")
            self.emit("if (%s) {" % cond, ind)
            self.block(ind + 1, 0, r.randint(1, 2), quantum_only=True)
            if r.random() < 0.5:
                self.emit("} else {", ind)
                self.block(ind + 1, 0, r.randint(1, 2), quantum_only=True)
            self.emit("}", ind)
        elif k == "for":
            v = self.fresh("i")
            self.note("for")
            c = r.random()
            if c < 0.6:
                a = r.randint(0, 2)
                rng = "[%d:%d]" % (a, a + r.randint(-1, 2))
            elif c < 0.8:
                a, st = r.randint(0, 3), r.choice([2, -1, -2, 3])
                b = a + st * r.randint(0, 2) + r.choice([0, 0, 1, -1])
                rng = "[%d:%d:%d]" % (a, st, b)
            else:
                rng = "{%s}" % ", ".join(str(r.randint(0, 3)) for _ in range(r.randint(1, 3)))
            ty = r.choice(["int", "int[8]", "uint[4]", "int[16]"])
            self.emit("for %s %s in %s {" % (ty, v, rng), ind)
            self.scopes.append({v: ("int", 32, False)})
            self.block(ind + 1, depth - 1, r.randint(1, 3), body_of_loop=True)
            self.scopes.pop()
            self.emit("}", ind)
        elif k == "switch":
            vs = [n for n in self.visible(("int",))]
            if not vs:
                return
            self.note("switch")
            t = r.choice(vs)
            self.emit("switch (%s) {" % t, ind)
            vals = r.sample(range(0, 6), r.randint(1, 4))
            while vals:
                k2 = r.randint(1, min(2, len(vals)))
                cs, vals = vals[:k2], vals[k2:]
                self.emit("case %s {" % ", ".join(map(str, cs)), ind + 1)
                self.scopes.append({})
                self.block(ind + 2, depth - 1, r.randint(1, 2), no_decl_arrays=True)
                self.scopes.pop()
                self.emit("}", ind + 1)
            if r.random() < 0.6:
                self.emit("default {", ind + 1)
                self.scopes.append({})
                self.block(ind + 2, depth - 1, 1)
                self.scopes.pop()
                self.emit("}", ind + 1)
            self.emit("}", ind)
        elif k == "alias" and self.qregs and self.in_def is None and len(self.scopes) == 1:
            q = r.choice(list(self.qregs))
            size = self.qregs[q]
            txt, ids = r.choice(self.operand_forms(q, size))
            if not ids:
                return
            a = self.fresh("al")
            self.emit("let %s = %s;" % (a, txt), ind)
            self.aliases[a] = len(ids)
            self.alias_map = dict(self.alias_map)
            self.alias_map[a] = [(q, i) for i in ids]
            self.note("alias")
        elif k == "assign":
            vs = [(n, kd) for sc in self.scopes for n, (kd, w, c) in sc.items() if not c and kd in ("int", "uint", "float", "bool")]
            if self.in_def is not None:
                vs = [(n, kd) for sc in self.scopes[1:] for n, (kd, w, c) in sc.items() if not c and kd in ("int", "uint", "float", "bool")]
            if not vs:
                return
            n, kd = r.choice(vs)
            self.note("assign")
            if kd in ("int", "uint"):
                op = r.choice(["=", "=", "+=", "-=", "*=", "<<=", ">>=", "|=", "&=", "^=", "%="])
                rhs = self.int_expr(1) if op not in ("<<=", ">>=", "%=") else str(r.randint(1, 3))
            elif kd == "float":
                op, rhs = r.choice(["=", "+=", "*=", "/=", "-="]), self.float_expr(1)
                if op == "/=":
                    rhs = "2"
            else:
                op, rhs = "=", self.bool_expr(0)
            self.emit("%s %s %s;" % (n, op, rhs), ind)
        elif k == "decl":
            self.decl(ind)
        elif k == "call" and self.subs and self.in_def is None:
            self.sub_call(ind)

    def decl(self, ind):
        r = self.r
        n = self.fresh("v")
        c = r.random()
        if c < 0.35:
            w = r.choice([8, 16, 32, None])
            ty = "int" + ("[%d]" % w if w else "")
            self.emit("%s %s = %s;" % (ty, n, self.int_expr(1)), ind)
            self.scopes[-1][n] = ("int", w or 32, False)
        elif c < 0.5:
            w = r.choice([4, 8, 32])
            self.emit("uint[%d] %s = %s;" % (w, n, self.int_expr(1, small=False)), ind)
            self.scopes[-1][n] = ("uint", w, False)
        elif c < 0.75:
            w = r.choice([32, 64])
            self.emit("float[%d] %s = %s;" % (w, n, self.float_expr(1)), ind)
            self.scopes[-1][n] = ("float", w, False)
        elif c < 0.85:
            self.emit("bool %s = %s;" % (n, self.bool_expr(0)), ind)
            self.scopes[-1][n] = ("bool", 1, False)
        else:
            if r.random() < 0.5:
                self.emit("const int[8] %s = %s;" % (n, str(r.randint(0, 4))), ind)
                self.scopes[-1][n] = ("int", 8, True)
            else:
                self.emit("const float[64] %s = %s;" % (n, fmt_float(round(r.uniform(-3, 3), 2))), ind)
                self.scopes[-1][n] = ("float", 64, True)
        self.note("decl")

    def block(self, ind, depth, n, quantum_only=False, body_of_loop=False, no_decl_arrays=False):
        pushed = False
        if not body_of_loop and not no_decl_arrays:
            self.scopes.append({})
            pushed = True
        saved_alias = (dict(self.aliases), self.alias_map)
        n0 = len(self.lines)
        for _ in range(n):
            if quantum_only:
                self.gate_call(ind)
            else:
                self.stmt(ind, depth)
        tries = 0
        while len(self.lines) == n0 and tries < 5:   # never leave a block empty
            tries += 1
            self.gate_call(ind)
        if len(self.lines) == n0:
            regs = self.regs()
            if regs:
                self.emit("x %s[0];" % sorted(regs)[0], ind)
        if pushed:
            self.scopes.pop()
        self.aliases, self.alias_map = saved_alias

    def gate_def(self):
        r = self.r
        name = self.fresh("g")
        np_ = r.randint(0, 2)
        nq = r.randint(1, 3)
        ps = ["p%d" % i for i in range(np_)]
        qs = ["a%d" % i for i in range(nq)]
        self.lines.append("gate %s%s %s {" % (name, "(" + ", ".join(ps) + ")" if ps else "", ", ".join(qs)))
        saved = self.scopes
        self.scopes = [{p: ("float", 64, True) for p in ps}]
        for _ in range(r.randint(1, 4)):
            if r.random() < 0.12 and self.p.get("gate_phase", True):
                self.emit("gphase(%s);" % self.float_expr(1), 1)
            else:
                self.gate_call(1, in_gate_body=qs)
        self.scopes = saved
        self.lines.append("}")
        self.gates[name] = (np_, nq)
        self.note("gate-def")

    def sub_def(self):
        r = self.r
        name = self.fresh("f")
        args, sig, formal_q, sc = [], [], {}, {}
        for i in range(r.randint(1, 3)):
            if r.random() < 0.6 or not formal_q:
                sz = r.choice([None, 1, 2, 3])
                an = "qa%d" % i
                sig.append("qubit%s %s" % ("[%d]" % sz if sz else "", an))
                args.append(("q", sz or 1))
                formal_q[an] = sz or 1
            else:
                kd = r.choice(["int", "float"])
                w = r.choice([8, 16, 32]) if kd == "int" else r.choice([32, 64])
                an = "ca%d" % i
                sig.append("%s[%d] %s" % (kd, w, an))
                args.append(("c", kd, w))
                sc[an] = (kd, w, False)
        ret = r.choice([None, None, "int[8]", "float[64]"])
        self.lines.append("def %s(%s)%s {" % (name, ", ".join(sig), " -> " + ret if ret else ""))
        saved = (self.scopes, self.in_def, self.aliases, self.alias_map)
        self.scopes = [self.scopes[0], sc]
        self.in_def = formal_q
        self.aliases, self.alias_map = {}, {}
        for _ in range(r.randint(1, 4)):
            self.stmt(1, 1)
        if ret:
            self.emit("return %s;" % (self.int_expr(1) if ret.startswith("int") else self.float_expr(1)), 1)
        self.scopes, self.in_def, self.aliases, self.alias_map = saved
        self.lines.append("}")
        self.subs[name] = (args, ret)
        self.note("sub-def")

    def sub_call(self, ind):
        r = self.r
        name, (args, ret) = r.choice(list(self.subs.items()))
        acts, used = [], set()
        for a in args:
            if a[0] == "q":
                cands = [(q, s) for q, s in self.qregs.items() if s >= a[1]]
                if not cands:
                    return
                q, s = r.choice(cands)
                if a[1] == s and r.random() < 0.4:
                    ids, txt = list(range(s)), q
                elif a[1] == 1:
                    i = r.randrange(s)
                    ids, txt = [i], "%s[%d]" % (q, i)
                elif r.random() < 0.3:
                    ids = r.sample(range(s), a[1])           # an index set in any order
                    txt = "%s[{%s}]" % (q, ", ".join(map(str, ids)))
                else:
                    st = r.randint(0, s - a[1])
                    ids, txt = list(range(st, st + a[1])), "%s[%d:%d]" % (q, st, st + a[1])
                if any((q, i) in used for i in ids):
                    return
                used.update((q, i) for i in ids)
                acts.append(txt)
            else:
                acts.append(self.int_expr(1) if a[1] == "int" else self.float_expr(1))
        call = "%s(%s)" % (name, ", ".join(acts))
        self.note("sub-call")
        if ret and r.random() < 0.6:
            n = self.fresh("rv")
            self.emit("%s %s = %s;" % (ret, n, call), ind)
            self.scopes[-1][n] = ("int" if ret.startswith("int") else "float", 8, False)
        else:
            self.emit("%s;" % call, ind)

    def program(self, nstmts=None):
        r = self.r
        self.lines = []
        for i in range(r.randint(1, 3)):
            n = "qr"[i % 2] + ("" if i < 2 else "2")
            if n in self.qregs:
                n = self.fresh("q")
            sz = r.randint(1, 4)
            self.lines.append(r.choice(["qubit[%d] %s;" % (sz, n)] * 3 + (["qubit %s;" % n] if sz == 1 else [])))
            self.qregs[n] = sz
        for i in range(r.randint(0, 2)):
            n = ["c", "m"][i]
            sz = r.randint(1, 3)
            self.lines.append("bit[%d] %s;" % (sz, n))
            self.cregs[n] = sz
        for _ in range(r.randint(0, 2)):
            self.decl(0)
        if not self.p["basis_only"]:
            for _ in range(r.randint(0, 2)):
                if r.random() < self.p["custom"] / 3.0:
                    self.gate_def()
            for _ in range(r.randint(0, 2)):
                if r.random() < self.p["call"] / 3.0:
                    self.sub_def()
        for _ in range(nstmts or r.randint(3, 9)):
            self.stmt(0, self.p["depth"])
        return H3 + "\n".join(self.lines) + "\n", self.feat


def random_program(rnd, profile=None):
    return G(rnd, profile).program()


# ---------------- exhaustive / structured families ----------------
def index_form_cases(max_size=4):
    """every (size, index form, bounds) on one register, basis gates only (C02)"""
    out = []
    for size in range(1, max_size + 1):
        decl = "qubit[%d] q;\nqubit[2] r;\n" % size
        forms = ["q"] + ["q[%d]" % i for i in range(-1, size + 1)]
        for a in range(-1, size + 1):
            for b in range(-1, size + 2):
                forms.append("q[%d:%d]" % (a, b))
                for s in (2, -1, -2, 0):
                    forms.append("q[%d:%d:%d]" % (a, s, b))
        forms += ["q[:%d]" % b for b in range(0, size + 2)] + ["q[%d:]" % a for a in range(-1, size + 1)] + ["q[:]", "q[::2]"]
        for k in range(1, min(3, size) + 1):
            for ids in itertools.permutations(range(size), k):
                forms.append("q[{%s}]" % ", ".join(map(str, ids)))
        forms += ["q[{0, 0}]", "q[{%d}]" % size]
        # indices that are closed expressions (folded by the unroller; inside the whole-program judgement through ParamProofs.ceval)
        forms += ["q[%d + 1]" % (size - 2), "q[2 * %d - %d]" % (size, size + 1), "q[-(-%d)]" % (size - 1), "q[%d %% %d]" % (size + 1, size), "q[1 << %d]" % (size - 1),
                  "q[true]", "q[false]", "q[!false]", "q[%d - %d]" % (size, size + 1), "q[%d / 2]" % size, "q[2 ** 1]", "q[7 & %d]" % size]
        for f in forms:
            out.append(H3 + decl + "h %s;\n" % f)
            out.append(H3 + decl + "let a = %s;\nx a;\nbarrier a;\n" % f)
    return out


def broadcast_cases():
    out = []
    for sq, sr in itertools.product(range(1, 5), repeat=2):
        decl = "qubit[%d] q;\nqubit[%d] r;\nbit[%d] c;\n" % (sq, sr, sq)
        for g, ops in [("cx", "q, r"), ("cx", "q"), ("cx", "q[0], r"), ("ccx", "q, r"), ("cz", "r, q"), ("swap", "q[0:2], r[0:2]"),
                       ("cx", "q, q"), ("h", "q, r"), ("ccx", "q[0], r[0], q[1]"), ("cx", "q[0], r[0], q[1], r[1]")]:
            out.append(H3 + decl + "%s %s;\n" % (g, ops))
        out.append(H3 + decl + "c = measure q;\nreset r;\nbarrier q, r;\n")
        out.append(H3 + decl + "measure q -> c;\n")
        out.append(H3 + decl + "c[0] = measure r[0];\nc = measure r;\n")
    return out


def loop_range_cases():
    """all inclusive ranges |a|,|b| <= 3, step in -3..3, plus sets (C08)"""
    out = []
    decl = "qubit[8] q;\n"
    for a in range(-3, 4):
        for b in range(-3, 4):
            out.append(H3 + decl + "for int i in [%d:%d] { rx(i) q[0]; }\n" % (a, b))
            for s in (-3, -2, -1, 0, 2, 3):
                out.append(H3 + decl + "for int i in [%d:%d:%d] { rx(i) q[0]; }\n" % (a, s, b))
    out.append(H3 + decl + "for int i in {3, 1, 2} { x q[i]; }\n")
    out.append(H3 + decl + "for uint[2] i in [0:5] { x q[i]; }\n")
    out.append(H3 + decl + "for int[2] i in [0:5] { x q[i]; }\n")
    out.append(H3 + decl + "int n = 3; for int i in [0:n] { x q[i]; n = 1; }\n")
    out.append(H3 + decl + "for float f in {0.5, 1.5} { rx(f) q[0]; }\n")
    return out


def modifier_cases(rnd, gates=None):
    """all modifier stacks up to length 3 over {inv, pow(-2..3)} on representative gates (C06)"""
    mods = ["inv", "pow(-2)", "pow(-1)", "pow(0)", "pow(1)", "pow(2)", "pow(3)"]
    stacks = [()] + [(m,) for m in mods] + list(itertools.product(mods, repeat=2)) + \
        [s for s in itertools.product(["inv", "pow(-1)", "pow(2)"], repeat=3)]
    gates = gates or ["h q[0]", "s q[0]", "t q[0]", "rx(0.3) q[0]", "u3(0.1, 0.2, 0.3) q[0]", "u2(0.4, 0.5) q[1]",
                      "cx q[0], q[1]", "ccx q[0], q[1], q[2]", "swap q[0], q[1]", "cz q[0], q[1]", "sdg q[0]", "ry(1) q",
                      "cg(0.7) q[0], q[1]", "ng q[0], q[1], q[2]", "gphase(0.5)", "crz(0.3) q[0], q[1]", "sx q[0]",
                      "ch q[0], q[1]", "rzz(0.2) q[0], q[1]", "cswap q[0], q[1], q[2]", "iswap q[0], q[1]"]
    pre = ("qubit[3] q;\ngate cg(a) x, y { rx(a) x; cx x, y; s y; }\n"
           "gate ng x, y, z { cg(0.25) x, y; t z; inv @ cg(0.5) y, z; gphase(0.125); }\n")
    out = []
    for g in gates:
        for st in stacks:
            out.append(H3 + pre + "".join(m + " @ " for m in st) + g + ";\n")
    out.append(H3 + pre + "ctrl @ x q[0], q[1];\n")
    out.append(H3 + pre + "negctrl @ x q[0], q[1];\n")
    out.append(H3 + pre + "pow(1.5) @ x q[0];\n")
    out.append(H3 + pre + "int k = 2; pow(k) @ inv @ cg(0.1) q[0], q[1];\n")
    return out


def gate_sweep(rnd, per_gate=3):
    """every library name at int/float parameters, one and two broadcast groups, loop-carried parameter"""
    out = []
    for n, (p, q) in LIB.items():
        for k in range(per_gate):
            vals = []
            for _ in range(p):
                c = rnd.random()
                vals.append(str(rnd.randint(-3, 9)) if c < 0.3 else fmt_float(round(rnd.uniform(-7, 7), rnd.randint(1, 4))) if c < 0.9 else "pi / %d" % rnd.randint(1, 8))
            ps = "(" + ", ".join(vals) + ")" if p else ""
            nq = q * (1 if k != 1 else 2)
            if nq > 8:
                nq = q
            perm = list(range(nq))
            rnd.shuffle(perm)
            ops = ", ".join("q[%d]" % i for i in perm)
            out.append(H3 + "qubit[%d] q;\n%s%s %s;\n" % (nq, n, ps, ops))
        if p:
            out.append(H3 + "qubit[%d] q;\nfor int i in [1:2] { %s(%s) %s; }\n" %
                       (q, n, ", ".join("i * 0.5" if j == 0 else "i" for j in range(p)), ", ".join("q[%d]" % i for i in range(q))))
    return out


PRELUDE = ("qubit[3] q;\nqubit[2] r;\nbit[3] c;\nint[8] iv = 2;\nconst int[8] cc = 1;\nfloat[32] fv = 1.5;\nbool bv = true;\n"
           "gate g1(a) x { rx(a) x; }\ngate g2 x, y { cx x, y; }\ngate gfree x { rx(lv) x; }\ngate gfree2 x { rx(iv) x; }\n"
           "def s1(qubit a, int[8] n) -> int[8] { h a; return n; }\ndef s2(qubit[2] b) { cx b[0], b[1]; }\n")

# (class, statement) : the statement must be rejected with ValidationError wherever it is reachable
ERRORS = [
    ("undeclared-var", "rx(nope) q[0];"), ("undeclared-var-assign", "nope = 3;"), ("undeclared-reg", "h nope;"),
    ("undeclared-reg-idx", "h nope[0];"), ("undeclared-gate", "nogate q[0];"), ("undeclared-sub", "nosub(q[0]);"),
    ("undeclared-measure-target", "nope[0] = measure q[0];"), ("undeclared-measure-src", "c[0] = measure nope[0];"),
    ("uninitialised", "int[8] un; rx(un) q[0];"), ("redeclared-var", "int[8] iv = 1;"), ("redeclared-qubit", "qubit q;"),
    ("redeclared-const", "const int[8] cc = 2;"), ("redeclared-as-sub", "def iv(qubit a) { h a; }"),
    ("keyword-name", "int[8] pi = 3;"), ("assign-const", "cc = 5;"),
    ("index-range-qubit", "h q[3];"), ("index-range-qubit-neg", "h q[-1];"), ("index-range-slice", "h q[0:5];"),
    ("index-range-clbit", "c[3] = measure q[0];"), ("index-range-cond", "if (c[5] == 1) { x q[0]; }"),
    ("duplicate-operand", "cx q[0], q[0];"), ("duplicate-operand-reg", "cx q, q[0:3];"), ("duplicate-barrier", "barrier q[1], q[1];"),
    ("duplicate-sub-arg", "s2(q[{1, 1}]);"),
    ("type-range-int", "int[4] big = 100;"), ("type-range-assign", "iv = 1000;"), ("type-range-float", "float[32] ff = 1e39;"),
    ("bad-width", "float[16] hf = 1.0;"), ("bad-width-neg", "const int[8] mw = 2; int[mw - 3] z = 0;"),
    ("gate-param-count", "g1(1, 2) q[0];"), ("gate-param-count0", "g1 q[0];"), ("gate-qubit-count", "g2 q[0];"),
    ("gate-qubit-count-lib", "cx q[0], q[1], q[2];"), ("sub-arg-count", "s1(q[0]);"), ("sub-qubit-size", "s2(q[0]);"),
    ("sub-qubit-size2", "s2(q);"), ("measure-size", "c = measure r;"), ("non-const-size", "int n2 = 2; qubit[n2] qq;"),
    ("non-const-width", "int w2 = 8; int[w2] ww = 1;"), ("non-const-init", "const int[8] k2 = iv;"),
    ("dup-gate", "gate g1(a) x { rx(a) x; }"), ("dup-sub", "def s2(qubit[2] b) { cx b[0], b[1]; }"),
    ("dup-include", 'include "stdgates.inc";'), ("dup-case", "switch (iv) { case 1, 1 { x q[0]; } }"),
    ("switch-non-int-target", "switch (fv) { case 1 { x q[0]; } }"), ("switch-non-const-case", "switch (iv) { case iv { x q[0]; } }"),
    ("switch-empty", "switch (iv) { }"), ("unsupported-while", "while (bv) { x q[0]; }"),
    ("unsupported-stmt-end", "end;"), ("alias-unknown", "let al = nope;"),
    ("alias-range", "let al = q[0:7];"), ("cond-on-creg-ident", "if (c) { x q[0]; }"), ("cond-creg-op", "if (c[0] > 0) { x q[0]; }"),
    ("classical-arg-is-qubit", "def s3(int[8] n) { } s3(q);"), ("qubit-arg-is-classical", "s1(iv, 1);"),
    ("return-type-mismatch", "def s4(qubit a) -> int[8] { h a; return; } s4(q[0]);"),
    ("void-returns-value", "def s5(qubit a) { return 1; } s5(q[0]);"),
    ("gphase-qubits-global", "gphase(0.1) q[0];"), ("cast-bit-float", "bit bb = 1.5;"),
    ("unsupported-imag", "rx(2im) q[0];"), ("bitnot-float", "rx(~1.5) q[0];"), ("unknown-op", "rx(2 ** 3) q[0];"),
    ("index-non-array", "rx(iv[0]) q[0];"), ("sizeof-non-array", "int[8] sz = sizeof(iv);"),
    ("discrete-set-nonliteral", "h q[{iv}];"), ("gate-body-index", "gate gb x { h x[0]; } gb q[0];"),
    ("gate-recursive", "gate gr x { gr x; } gr q[0];"),
    ("lib-gate-param-count-missing", "rx q[0];"), ("lib-gate-param-count-extra", "h(0.5) q[0];"),
    ("lib-gate-param-count-u3", "u3(1, 2) q[0];"), ("lib-gate-param-count-cu", "cu3(1, 2) q[0], q[1];"),
    ("gate-body-undeclared-qubit", "gate gq x { h yy; } gq q[0];"),
    ("index-range-set", "h q[{0, 5}];"), ("index-range-set-alias", "let als = q[{0, 7}];"),
    ("measure-no-target", "measure q[0];"), ("gate-mutual-recursion", "gate ga x { gb x; } gate gb x { ga x; } ga q[0];"),
    ("pow-non-integer", "pow(1.5) @ x q[0];"), ("division-by-zero", "int[8] dz = 1 / 0;"), ("negative-shift", "int[8] ns = 1 << -1;"),
    ("sub-arg-count-extra", "s1(q[0], 1, 2);"), ("sub-scalar-arg-range", "s1(q[0], 300);"),
    ("index-range-sub-arg", "s1(q[5], 1);"), ("index-range-sub-slice", "s2(q[2:4]);"),
    ("assign-to-qubit", "q = 1;"), ("undeclared-in-condition", "if (nope == 1) { x q[0]; }"),
    ("undeclared-loop-bound", "for int lw in [0:nope] { x q[0]; }"), ("undeclared-in-pow", "pow(nope) @ x q[0];"),
    ("undeclared-in-index", "h q[nope];"), ("undeclared-in-slice", "h q[0:nope];"),
    ("duplicate-measure-bits", "c[{0, 0}] = measure q[{0, 1}];"), ("index-range-reset", "reset q[3];"),
    ("index-range-barrier", "barrier q[0], q[4];"), ("undeclared-barrier", "barrier nope;"), ("undeclared-reset", "reset nope[0];"),
]
ERRORS += [
    ("duplicate-via-alias", "let dal = q[0:2]; cx dal[0], q[0];"),
    ("duplicate-two-aliases", "let da1 = q[0:2]; let da2 = q[1:3]; cx da1[1], da2[0];"),
    ("duplicate-alias-whole", "let da3 = q[{2, 0}]; ccx da3, q[2];"),
    ("duplicate-barrier-alias", "let da4 = q[1:3]; barrier da4[0], q[1];"),
    ("out-of-scope-global-in-sub", "def os1(qubit a) { rx(iv) a; } os1(q[0]);"),
    ("out-of-scope-global-in-sub-if", "def os2(qubit a) { if (true) { rx(iv) a; } } os2(q[0]);"),
    ("out-of-scope-global-in-sub-for", "def os3(qubit a) { for int k in [0:1] { rx(fv) a; } } os3(q[0]);"),
    ("out-of-scope-global-in-sub-switch", "def os7(qubit a, int[8] sw) { switch (sw) { case 1 { rx(iv) a; } } } os7(q[0], 1);"),
    ("out-of-scope-assign-in-sub-if", "def os4(qubit a) { if (true) { iv = 3; } } os4(q[0]);"),
    ("out-of-scope-assign-in-sub", "def os8(qubit a) { iv = 3; } os8(q[0]);"),
    ("out-of-scope-qubit-in-sub", "def os9(qubit a) { h q[0]; } os9(q[1]);"),
    ("out-of-scope-qubit-in-sub-if", "def os10(qubit a) { if (true) { h r; } } os10(q[1]);"),
    ("out-of-scope-after-block", "if (true) { int[8] tmp = 1; } rx(tmp) q[0];"),
    ("out-of-scope-loop-var", "for int lq in [0:1] { x q[0]; } rx(lq) q[0];"),
    ("out-of-scope-sub-local", "def os5(qubit a) { int[8] loc = 1; } os5(q[0]); rx(loc) q[0];"),
    ("out-of-scope-gate-param", "gate gp(a) x { rx(a) x; } gp(1) q[0]; rx(a) q[0];"),
    ("out-of-scope-formal-qubit", "def os6(qubit fq) { h fq; } os6(q[0]); h fq;"),
    ("out-of-scope-alias", "if (true) { let ba = q[0:2]; } h ba;"),
    ("out-of-scope-nonconst-in-gate", "gate gs x { rx(iv) x; } gs q[0];"),
    ("readonly-arg-assign", "def os11(qubit a, int[8] n) { cc = n; } os11(q[0], 1);"),
]
AR3 = "array[int[8], 3] ar = {1, 2, 3}; "
ERRORS += [
    ("array-index-range", AR3 + "rx(ar[3]) q[0];"), ("array-index-range-neg", AR3 + "rx(ar[-1]) q[0];"),
    ("array-slice-end-range", AR3 + "array[int[8], 3] br; br[0:1] = ar[1:3];"),
    ("array-slice-start-range", AR3 + "array[int[8], 3] br; br[0:1] = ar[3:4];"),
    ("array-slice-end-range-2d", "array[int[8], 2, 3] zr = {{1, 2, 3}, {4, 5, 6}}; array[int[8], 3] br; br[0:2] = zr[1, 0:5];"),
    ("array-slice-write-range", AR3 + "ar[1:3] = 5;"), ("array-index-write-range", AR3 + "ar[3] = 5;"),
    ("array-init-view-range", AR3 + "array[int[8], 2] vr = ar[1:3];"),
    ("array-literal-shape", "array[int[8], 3] sr = {1, 2};"), ("array-literal-shape-2d", "array[int[8], 2, 2] sr = {{1, 2}, {3, 4}, {5, 6}};"),
    ("array-element-type-range", "array[int[8], 2] er = {1, 300};"), ("array-element-assign-range", AR3 + "ar[0] = 300;"),
    ("array-uninitialised-element", "array[int[8], 3] ur; rx(ur[1]) q[0];"),
    ("array-index-count", "array[int[8], 2, 2] mr = {{1, 2}, {3, 4}}; rx(mr[0, 1, 0]) q[0];"),
    ("array-too-many-dims", "array[int[8], 1, 1, 1, 1, 1, 1, 1, 1] tr;"), ("array-zero-dim", "array[int[8], 0] zr;"),
    ("array-sizeof-dim-range", AR3 + "int[8] sz = sizeof(ar, 1);"),
    ("array-slice-shape-mismatch", AR3 + "array[int[8], 3] br; br[0:2] = ar[0:1];"),
    ("array-ref-readonly-write", "def ra(readonly array[int[8], #dim=1] xa) { xa[0] = 5; } " + AR3 + "ra(ar);"),
    ("array-ref-type-mismatch", "def rb(readonly array[int[16], #dim=1] xa) { } " + AR3 + "rb(ar);"),
    ("array-ref-dim-mismatch", "def rc(readonly array[int[8], #dim=2] xa) { } " + AR3 + "rc(ar);"),
    ("array-ref-slice-range", "def rd(mutable array[int[8], #dim=1] xa) { xa[0] = 1; } " + AR3 + "rd(ar[1:3]);"),
    ("array-ref-not-array", "def re(readonly array[int[8], #dim=1] xa) { } re(iv);"),
    ("array-ref-size-exceeds", "def rf(readonly array[int[8], 5] xa) { } " + AR3 + "rf(ar);"),
    ("array-ref-index-range-in-body", "def rg(readonly array[int[8], 2] xa) -> int[8] { return xa[2]; } " + AR3 + "int[8] rr = rg(ar);"),
]
ERRORS += [
    # a gate body cannot read the variables of the code that applies it (lv: the loop variable of the for contexts)
    ("gate-body-reads-callers-variable", "gfree q[0];"), ("gate-body-reads-callers-local", "int[8] lv2 = 1; gfree q[1];"),
    ("gate-body-reads-global-variable", "gfree2 q[0];"),
    ("gate-body-reads-callers-shadow", "float[64] lv = 0.5; gfree q[0];"),
    ("duplicate-sub-arg-nonadjacent", "def s6(qubit a, qubit b2, qubit c2) { h a; } s6(q[0], q[1], q[0]);"),
    ("duplicate-sub-arg-later-pair", "def s9(qubit a, qubit b2, qubit c2) { h a; } s9(q[0], q[1], q[1]);"),
    ("duplicate-sub-arg-later-pair-slices", "def s10(qubit[2] a, qubit b2, qubit[2] c2) { h a; } s10(r[0:2], q[2], q[1:3]);"),
    ("duplicate-sub-arg-last-two-of-four", "def s11(qubit a, qubit b2, qubit c2, qubit d2) { h a; } s11(r[0], q[0], q[2], q[2]);"),
    ("duplicate-sub-arg-nonadjacent-slices", "def s7(qubit[2] a, qubit b2, qubit[2] c2) { h a; } s7(q[1:3], q[0], q[{2, 1}]);"),
    ("duplicate-sub-arg-two-registers", "def s8(qubit a, qubit b2, qubit c2, qubit d2) { h a; } s8(q[0], r[0], q[1], r[0]);"),
]
# error sites of the implementation that no earlier class reached (found by line coverage of the quick corpus)
ERRORS += [
    ("index-range-stepped-slice", "h q[0:2:4];"), ("index-range-stepped-slice-measure", "c[0:2:4] = measure q[0:2:2];"),
    ("index-range-stepped-slice-reset", "reset q[1:2:5];"), ("index-range-stepped-slice-alias", "let als2 = q[0:2:6];"),
    ("index-range-stepped-slice-sub-arg", "s2(q[0:2:4]);"), ("index-range-negative-step-slice", "h q[5:-2:0];"),
    ("constant-as-index", "h q[pi];"), ("sizeof-of-element", AR3 + "int[8] sz = sizeof(ar[0]);"),
    ("unsupported-cast-expression", "rx(int[8](fv)) q[0];"), ("unsupported-duration-literal", "rx(10ns) q[0];"),
    ("formal-qubit-size-zero", "def sz0(qubit[0] a) { } sz0(q[0]);"),
    ("array-ref-literal-actual", "def ra1(readonly array[int[8], #dim=1] xa) { } ra1(5);"),
    ("array-ref-qubit-actual", "def ra2(readonly array[int[8], #dim=1] xa) { } ra2(q);"),
    ("array-ref-undeclared-actual", "def ra3(readonly array[int[8], #dim=1] xa) { } ra3(nope);"),
    ("array-ref-zero-dims", "def ra4(readonly array[int[8], #dim=0] xa) { } " + AR3 + "ra4(ar);"),
    ("array-ref-zero-size", "def ra5(readonly array[int[8], 0] xa) { } " + AR3 + "ra5(ar);"),
    ("cond-unary-not-bang", "c[0] = measure q[0]; if (~c[0]) { x q[0]; }"),
    ("cond-index-set", "c[0] = measure q[0]; if (c[{0, 1}] == 1) { x q[0]; }"),
    ("cond-index-range", "c[0] = measure q[0]; if (c[0:1] == 1) { x q[0]; }"),
    ("cond-index-set-bare", "c[0] = measure q[0]; if (c[{0, 1}]) { x q[0]; }"),
    ("cond-index-range-bare", "c[0] = measure q[0]; if (c[0:1]) { x q[0]; }"),
    ("cond-undeclared-register-indexed", "if (nope[0] == 1) { x q[0]; }"),
    ("switch-case-declares-qubits", "switch (iv) { case 2 { qubit[2] zz; } default { x q[0]; } }"),
    ("switch-case-defines-gate", "switch (iv) { case 2 { gate gsw x { h x; } } default { x q[0]; } }"),
    ("switch-case-declares-array", "switch (iv) { case 2 { array[int[8], 2] asw; } default { x q[0]; } }"),
    ("array-literal-too-shallow", "array[int[8], 2, 2] sh = {1, 2};"),
    ("keyword-qubit-register", "qubit euler;"), ("keyword-const", "const int[8] tau = 3;"), ("keyword-subroutine", "def pi(qubit a) { h a; }"),
    ("gate-body-barrier", "gate gbb x { barrier x; } gbb q[0];"),
    ("const-base-size-zero", "const int[0] zc = 1;"),
    ("loop-over-identifier", AR3 + "for int lo in ar { x q[0]; }"),
    ("alias-redeclares-variable", "let iv = q[0:2];"), ("alias-of-concatenation", "let alc = q ++ r;"), ("alias-two-indices", "let al2 = q[0, 1];"),
]
# an erroneous operand below a unary operator / deeper in an expression tree, in every position that demands a constant
# (each expression has a valid value if the check is lost: iv = 2), and in later rows of multi-dimensional arrays
ERRORS += [
    ("non-const-init-under-unary-minus", "const int[8] k3 = -iv + 4;"), ("non-const-init-double-minus", "const int[8] k3 = -(-iv);"),
    ("non-const-init-under-bitnot", "const int[8] k3 = ~iv + 4;"), ("non-const-init-nested", "const int[8] k3 = 2 * (-iv + 3);"),
    ("non-const-init-right-operand", "const int[8] k3 = 4 - iv;"), ("non-const-init-parenthesised", "const int[8] k3 = (iv);"),
    ("non-const-init-under-not", "const int[8] k3 = !bv;"),
    ("non-const-size-under-unary", "qubit[-iv + 4] qq;"), ("non-const-size-double-minus", "qubit[-(-iv)] qq;"),
    ("non-const-width-under-unary", "int[-iv + 10] ww = 1;"), ("non-const-width-under-bitnot", "int[~iv + 11] ww = 1;"),
    ("non-const-array-dim-under-unary", "array[int[8], -iv + 4] aa;"),
    ("switch-non-const-case-under-unary", "switch (iv) { case -iv { x q[0]; } default { x q[1]; } }"),
    ("switch-non-const-case-under-bitnot", "switch (iv) { case ~iv { x q[0]; } default { x q[1]; } }"),
    ("switch-non-const-case-second-value", "switch (iv) { case 1, -iv + 4 { x q[0]; } default { x q[1]; } }"),
    ("undeclared-under-unary-minus", "rx(-nope) q[0];"), ("undeclared-under-bitnot", "rx(~nope) q[0];"), ("undeclared-under-not", "rx(!nope) q[0];"),
    ("undeclared-nested-unary", "rx(1 - -nope) q[0];"),
    ("uninitialised-under-unary", "int[8] un; rx(-un) q[0];"), ("uninitialised-under-bitnot", "int[8] un; int[8] u2 = ~un;"),
    ("uninitialised-nested-unary", "int[8] un; rx(2 * -un) q[0];"),
    ("array-element-type-range-last-row", "array[int[8], 2, 2] er2 = {{1, 2}, {3, 300}};"),
    ("array-element-type-range-second-row-first", "array[int[8], 2, 2] er2 = {{1, 2}, {300, 4}};"),
    ("array-element-type-range-3d-last", "array[int[8], 2, 2, 2] er3 = {{{1, 2}, {3, 4}}, {{5, 6}, {7, 300}}};"),
    ("array-element-type-range-third-row-negative", "array[int[8], 3, 2] er4 = {{1, 2}, {3, 4}, {5, -129}};"),
    ("array-element-type-range-float-last-row", "array[float[32], 2, 2] fr = {{1.0, 2.0}, {3.0, 1e39}};"),
    ("array-whole-assign-range-last-row", "array[int[16], 2, 2] wd = {{1, 2}, {3, 300}}; array[int[8], 2, 2] nr; nr = wd;"),
    ("array-slice-assign-range-last-row", "array[int[16], 2, 2] wd = {{1, 2}, {3, 300}}; array[int[8], 2, 2] nr; nr[1, 0:1] = wd[1, 0:1];"),
    ("array-2d-slice-assign-range-last-row", "array[int[16], 2, 2] wd = {{1, 2}, {3, 300}}; array[int[8], 2, 2] nr; nr[0:1, 0:1] = wd[0:1, 0:1];"),
]
TOP_ONLY = {"gphase-qubits-global", "redeclared-var"}

CONTEXTS = [
    ("top", "%s"),
    ("if-true", "if (bv) { %s }"),
    ("else", "if (!bv) { x q[0]; } else { %s }"),
    ("for-first", "for int lv in [0:2] { %s }"),
    ("for-set", "for int lv in {4, 5} { %s }"),
    ("switch-case", "switch (iv) { case 2 { %s } default { x q[0]; } }"),
    ("switch-default", "switch (iv) { case 7 { x q[0]; } default { %s } }"),
    ("sub-body", "def ctxsub(qubit qa) { %s } ctxsub(q[0]);"),
    ("nested", "for int lv in [0:1] { if (lv == 0) { %s } }"),
    ("if-meas", "c[0] = measure q[0]; if (c[0] == 1) { %s }"),
]
CONTEXTS += [
    ("sub-if", "def ctxsub2(qubit qa) { if (true) { %s } } ctxsub2(q[0]);"),
    ("sub-for", "def ctxsub3(qubit qa) { for int sv in [0:1] { %s } } ctxsub3(q[0]);"),
    ("gate-call-in-for-in-sub", "def ctxsub4(qubit qa) { for int sv in [0:0] { if (sv == 0) { %s } } } ctxsub4(q[1]);"),
]

# statements that cannot appear in some contexts (declarations of gates/subs/qubits inside switch...)
def error_cases():
    out = []
    for cls, st in ERRORS:
        for ctx, tpl in CONTEXTS:
            if cls in TOP_ONLY and ctx != "top":
                continue
            if "array[" in st and ctx != "top":          # the grammar only allows array declarations at top level
                continue
            if ctx != "top" and any(k in st for k in ("def ", "gate g", "include", "qubit q", "qubit[")) :
                continue
            if ctx.startswith(("sub-", "gate-call-in")) and (cls.startswith(("redeclared", "keyword", "cond-")) or "measure" in st or "return" in st):
                continue
            if ctx in ("switch-case", "switch-default") and st.startswith(("int", "float", "const", "bit")) and "[" not in st.split()[0]:
                pass
            out.append((cls, ctx, H3 + PRELUDE + tpl % st + "\n"))
    return out


def scope_cases():
    """placements of declare / read / write of one name across nested scopes (C08)"""
    out = []
    pre = "qubit[2] q;\n"
    decls = {"none": "", "global": "int[8] x = 1;\n", "const": "const int[8] x = 1;\n"}
    bodies = [
        "{B} rx(x) q[0];",
        "if (true) { {B} } rx(x) q[0];",
        "if (true) { int[8] x = 5; {B} } rx(x) q[0];",
        "for int i in [0:1] { {B} } rx(x) q[0];",
        "for int i in [0:1] { int[8] x = 7; {B} x = x + 1; } rx(x) q[0];",
        "for int i in [0:1] { if (i == 1) { {B} } } rx(x) q[0];",
        "for int x in [3:4] { {B} } ",
        "for int i in [0:1] { rx(i) q[0]; } rx(i) q[0];",
        "int[8] s = 1; switch (s) { case 1 { {B} } } rx(x) q[0];",
        "int[8] s = 1; switch (s) { case 1 { int[8] x = 9; {B} } } rx(x) q[0];",
        "def f(qubit a) { {B} } f(q[0]); rx(x) q[0];",
        "def f(qubit a, int[8] x) { x = x + 1; rx(x) a; } f(q[0], 4); f(q[0], x); rx(x) q[0];",
        "def f(qubit a) -> int[8] { int[8] x = 3; x += 1; return x; } int[8] y = f(q[0]); int[8] z = f(q[1]); rx(y + z) q[0];",
        "def f(qubit a) { if (true) { {B} } } f(q[0]);",
        "gate g a { rx(x) a; } g q[0];",
        "gate g(x) a { rx(x) a; } g(0.5) q[0]; g(x) q[1];",
        "gate g a { rx(pi) a; } for int i in [0:1] { g q[i]; }",
        "if (true) { if (true) { {B} } {B} } rx(x) q[0];",
        "if (false) { int[8] x = 2; } else { {B} } rx(x) q[0];",
        # a formal argument of the same name as a global (constant): blocks of the body read and update the formal
        "def f(qubit a, int[8] x) { rz(x) a; for int i in [0:1] { {B} rx(x) a; } if (x == 7) { ry(x) a; } else { h a; } } f(q[0], 7);",
        "def f(qubit a, int[8] x) { if (true) { x = x + 1; {B} } rx(x) a; for int j in [0:0] { if (j == 0) { rz(x) a; } } } f(q[0], 7); f(q[1], 2);",
        "gate g(x) a { rx(x) a; } def f(qubit a, float[64] x) { if (true) { g(x) a; {B} } } f(q[0], 0.5);",
        # a name declared in a block and read / written from a block nested deeper inside it: the update belongs to the
        # declaring block, is seen there after the inner block ends, and never reaches the scopes outside (round 10)
        "if (true) { int[8] x = 5; if (true) { {B} } rx(x) q[1]; } rx(x) q[0];",
        "if (true) { int[8] x = 5; for int j in [0:1] { if (j == 1) { {B} } } rx(x) q[1]; } rx(x) q[0];",
        "for int i in [0:1] { int[8] x = 7; if (i == 1) { {B} } rx(x) q[1]; } rx(x) q[0];",
        "int[8] s = 1; switch (s) { case 1 { int[8] x = 9; if (true) { {B} } rx(x) q[1]; } } rx(x) q[0];",
        "def f(qubit a) { if (true) { int[8] x = 4; for int j in [0:1] { {B} } rx(x) a; } } f(q[0]); rx(x) q[0];",
        "for int i in [0:1] { int[8] acc = 1; if (true) { acc = acc + i; {B} } rx(acc) q[0]; } rx(acc) q[0];",
        "for int i in [0:1] { int[8] acc = 1; if (true) { if (i == 0) { acc += 2; } {B} } rx(acc) q[0]; } int[8] acc = 3; rx(acc) q[1];",
    ]
    acts = {"read": "rx(x) q[1];", "write": "x = x + 2;", "declare": "int[8] x = 3;", "nothing": "h q[1];", "compound": "x *= 3;"}
    for dn, d in decls.items():
        for b in bodies:
            for an, a in acts.items():
                if "{B}" not in b and an != "nothing":
                    continue
                out.append(H3 + pre + d + b.replace("{B}", a) + "\n")
    return out


def expr_cases(rnd, n):
    """typed random expression trees plus boundary literals, observed through declarations,
    gate angles, register indices and loop bounds (C07)"""
    out = []
    bounds = [0, 1, -1, 2, 7, 8, 15, 16, 127, 128, -128, -129, 255, 256, 32767, 32768, 2 ** 31 - 1, 2 ** 31, -2 ** 31, -2 ** 31 - 1, 2 ** 32, 2 ** 53 - 1]
    pre = "qubit[8] q;\n"
    for w in (1, 2, 4, 8, 16, 32):
        for b in bounds:
            out.append(H3 + pre + "int[%d] a = %d;\nrx(a) q[0];\n" % (w, b))
            out.append(H3 + pre + "uint[%d] a = %d;\nrx(a) q[0];\n" % (w, b))
    for b in bounds[:14]:
        out.append(H3 + pre + "float[32] f = %d;\nfloat[64] g = f / 3;\nrx(g) q[0];\nint[32] t = g;\nrz(t) q[1];\n" % b)
        out.append(H3 + pre + "bool b = %d;\nrx(b) q[0];\nint[8] i = b;\nx q[i];\n" % b)
    for v in ["3.7", "-3.7", "0.5", "-0.5", "1e10", "2.5e-3", "1e39", "-1e39", "1e308", "0.0", "-0.0"]:
        out.append(H3 + pre + "int[32] t = %s;\nrz(t) q[1];\nuint[8] u = %s;\nrz(u) q[2];\nfloat[32] f = %s;\nrx(f) q[0];\n" % (v, v, v))
    for v in ["0.5", "-0.75", "0.25 * 2", "fv2 * 2", "0.0", "-0.0", "1.0", "2.5", "1e-9", "3 - 2.5"]:
        out.append(H3 + pre + "float[64] fv2 = 0.25;\nbool t = %s;\nif (t) { x q[0]; } else { y q[0]; }\nrx(t) q[1];\nbool t2 = false;\nt2 = %s;\nrx(t2) q[2];\n"
                   "const bool t3 = %s;\nrx(t3) q[3];\ndef f(bool fb) -> bool { return fb; }\nbool t4 = f(%s);\nrx(t4) q[4];\n" % (v, v, v.replace("fv2", "0.25"), v))
    out += cast_use_cases()
    out += folded_value_cases()
    ops2 = ["+", "-", "*", "/", "%", "==", "!=", "<", ">", "<=", ">=", "&&", "||", "^", "&", "|", "<<", ">>"]
    lits = ["0", "1", "2", "3", "5", "-1", "-4", "true", "false", "1.5", "-2.5", "0.0", "pi"]
    for op in ops2:
        for a in lits:
            for b in lits:
                out.append(H3 + pre + "rx(%s %s %s) q[0];\n" % (a, op, b))
    for a in lits:
        for u in ("-", "!", "~"):
            out.append(H3 + pre + "rx(%s%s) q[0];\n" % (u, "(" + a + ")"))
    g = G(rnd)
    g.scopes = [{"iv": ("int", 8, False), "uv": ("uint", 4, False), "fv": ("float", 64, False), "bv": ("bool", 1, False)}]
    pre2 = pre + "int[8] iv = 3;\nuint[4] uv = 9;\nfloat[64] fv = 0.75;\nbool bv = true;\n"
    for _ in range(n):
        c = rnd.random()
        if c < 0.3:
            out.append(H3 + pre2 + "rx(%s) q[0];\n" % g.float_expr(3))
        elif c < 0.5:
            out.append(H3 + pre2 + "int[16] t = %s;\nrx(t) q[0];\nx q[t & 7];\n" % g.int_expr(3, small=False))
        elif c < 0.65:
            out.append(H3 + pre2 + "uint[%d] t = %s;\nrx(t) q[0];\n" % (rnd.choice([1, 3, 8]), g.int_expr(3, small=False)))
        elif c < 0.8:
            out.append(H3 + pre2 + "bool t = %s;\nif (t) { x q[0]; } else { y q[0]; }\nrx(t) q[1];\n" % g.bool_expr(2))
        elif c < 0.9:
            out.append(H3 + pre2 + "iv %s %s;\nrx(iv) q[0];\nuv %s %s;\nrx(uv) q[1];\n" %
                       (rnd.choice(["+=", "-=", "*=", "<<=", ">>=", "|=", "&=", "^=", "%=", "/="]), g.int_expr(1),
                        rnd.choice(["+=", "-=", "*=", "<<=", ">>=", "|=", "&=", "^="]), g.int_expr(1)))
        else:
            out.append(H3 + pre2 + "for int i in [%s:%s] { rx(i) q[0]; }\n" % (g.int_expr(1), g.int_expr(1)))
    return out


def external_cases(rnd):
    """programs whose gates are kept external in every subset E of the names used (C18)"""
    base = ("qubit[4] q;\ngate c1(a) x, y { rx(a) x; cx x, y; }\ngate c2 x { h x; c1(0.5) x, x2; }\n")
    progs = [
        "qubit[4] q;\ngate c1(a) x, y { rx(a) x; cx x, y; }\ngate c2 x, y, z { h x; c1(0.5) y, z; }\n"
        "c1(0.3) q[0], q[1];\nc2 q[1], q[2], q[3];\ninv @ c1(1) q[2], q[3];\npow(2) @ c2 q[0:3];\nh q;\ncx q;\ninv @ pow(3) @ inv @ h q[0];\npow(0) @ c1(1) q[0], q[1];\n",
        "qubit[3] q;\ngate c1(a, b) x { u3(a, b, 0.1) x; }\nc1(pi, 2) q[0];\ninv @ c1(1, 2 * 3) q;\nu3(1, 2, 3) q[1];\ncrz(0.5) q[0], q[1];\npow(-2) @ rx(0.5) q[2];\n",
        "qubit[2] q;\nqubit[2] r;\ngate c1 x, y { cx x, y; }\ndef f(qubit[2] a) { c1 a[0], a[1]; h a; }\nf(q);\nf(r);\nc1 q[0], r[1];\nfor int i in [0:1] { c1 q[i], r[i]; rx(i) q; }\n",
        # operands and parameters of kept calls computed from variables, constants, loop variables, subroutine arguments, aliases
        "qubit[4] q;\nint[8] k = 1;\nconst int[8] n = 2;\nfloat[64] th = 0.25;\ngate c1(a) x, y { rx(a) x; cx x, y; }\n"
        "h q[k];\nc1(th) q[k], q[k + 1];\nrx(th * 2) q[n];\nif (k == 1) { h q[k + 2]; c1(k) q[0], q[n]; }\n"
        "def f(qubit[2] p, int[8] m) { h p[m]; c1(m) p[0], p[1]; rx(m * 0.5) p[m]; }\nf(q[1:3], 1);\nlet al = q[{3, 0}];\nh al[k];\nc1(0.1) al[0], al[1];\n"
        "for int i in [0:2] { cx q[i], q[i + 1]; c1(i) q[i], q[3 - k - i + 1]; }\nswitch (k) { case 1 { h q[n]; } default { h q[0]; } }\n",
        # definitions that take the name of a library gate with another number of qubits / parameters: a kept call is a
        # call of the gate the program defines, split (if at all) by that gate's own qubit count (round 10)
        "qubit[4] q;\ngate h a, b { cx a, b; rz(0.5) b; }\ngate rx(t) a, b, c { cx a, b; rz(t) c; }\nh q[0], q[1];\ninv @ h q[2], q[3];\nx q[2];\n"
        "rx(0.5) q[0], q[1], q[2];\npow(2) @ rx(1) q[1], q[2], q[3];\nh q[0:2];\ncx q[0], q[1];\n",
        # (the shadowed names are not basis gates that the lowering of another library gate of the program emits: the kept program
        # would then name two different gates by one name, which is outside what the re-load oracle can re-attach definitions to)
        "qubit[3] q;\ngate swap a { h a; }\ngate crx(t) a, b, c { rx(t) a; rz(t) b; cx b, c; }\nswap q[0];\ninv @ swap q[1];\ncrx(0.3) q[0], q[2], q[1];\ninv @ crx(1) q[0:3];\ncrz(0.5) q[0], q[1];\n",
    ]
    out = []
    for p in progs:
        names = sorted(set(n for n in ("c1", "c2", "h", "cx", "u3", "rx", "crz", "swap", "crx") if (n + " " in p or n + "(" in p)))
        for k in range(len(names) + 1):
            for E in itertools.combinations(names, k):
                out.append((H3 + p, list(E)))
    return out


def subroutine_arg_cases(max_size=4):
    """all shapes of quantum actual arguments (whole, index, range with step, index set in any
    order) for formals of size 1..3, with a body that distinguishes the formal's elements (C02)"""
    out = []
    for size in range(1, max_size + 1):
        decl = "qubit[%d] q;\nqubit[2] r;\nbit[%d] c;\n" % (size, size)
        forms = [("q", list(range(size)))]
        for i in range(size):
            forms.append(("q[%d]" % i, [i]))
        for a in range(size):
            for b in range(a + 1, size + 1):
                forms.append(("q[%d:%d]" % (a, b), list(range(a, b))))
                for s in (2, 3):
                    forms.append(("q[%d:%d:%d]" % (a, s, b), list(range(a, b, s))))
        for k in range(1, min(3, size) + 1):
            for ids in itertools.permutations(range(size), k):
                forms.append(("q[{%s}]" % ", ".join(map(str, ids)), list(ids)))
        for txt, ids in forms:
            k = len(ids)
            if k == 0 or k > 3:
                continue
            body = "".join("rx(%d) p[%d]; " % (j + 1, j) for j in range(k))
            if k >= 2:
                body += "cx p[0], p[%d]; " % (k - 1)
            body += "reset p[0]; barrier p;"
            fsz = "[%d]" % k if (k > 1 or txt == "q") else ""
            out.append(H3 + decl + "def g(qubit%s p) { %s }\ng(%s);\n" % ("[%d]" % k if k > 1 or "[" not in txt or ":" in txt or "{" in txt else "", body, txt))
            out.append(H3 + decl + "def g(qubit[%d] p, qubit t) { %s cx p[0], t; }\nfor int i in [0:1] { g(%s, r[i]); }\n" % (k, body, txt))
    # two formals drawing from the same register, aliases handed to subroutine bodies' gates
    out.append(H3 + "qubit[4] q;\ndef g(qubit[2] a, qubit[2] b) { cx a[0], b[1]; cx a[1], b[0]; }\ng(q[{3, 0}], q[1:3]);\ng(q[2:4], q[{1, 0}]);\n")
    out.append(H3 + "qubit[5] q;\nlet a = q[1:2:5];\ngate cg x, y { cx x, y; h y; }\ncg a[0], a[1];\ncg a[1], a[0];\nbarrier a;\nreset a[1];\n")
    out.append(H3 + "qubit[5] q;\nlet a = q[{4, 1, 2}];\nh a;\ncx a[0], a[2];\nx a[1:3];\ny a[{2, 0}];\n")
    return out


def repeated_call_cases():
    """call sequences of the same gate / subroutine definition: every call must start from the
    unmodified definition (C08, C06)"""
    out = []
    pre = ("qubit[3] q;\ngate g(a) x, y { rx(a) x; cx x, y; s y; t x; }\n"
           "gate outer x, y, z { g(0.5) x, y; h z; g(0.25) y, z; inv @ g(1) x, z; }\n"
           "def f(qubit[2] p, int[8] n) -> int[8] { int[8] loc = n; loc += 1; g(loc) p[0], p[1]; inv @ g(n) p[1], p[0]; return loc; }\n")
    calls = ["g(0.1) q[0], q[1];", "inv @ g(0.1) q[0], q[1];", "pow(2) @ g(0.2) q[1], q[2];", "pow(-1) @ g(0.3) q[2], q[0];",
             "outer q[0], q[1], q[2];", "inv @ outer q[2], q[1], q[0];", "int[8] r1 = f(q[0:2], 1); rz(r1) q[0];", "f(q[1:3], 2);"]
    for seq in itertools.product(range(len(calls)), repeat=2):
        out.append(H3 + pre + "\n".join(calls[i].replace("r1", "r%d" % k) for k, i in enumerate(seq)) + "\n")
    for seq in itertools.product([0, 1, 4, 5, 6], repeat=3):
        out.append(H3 + pre + "\n".join(calls[i].replace("r1", "r%d" % k) for k, i in enumerate(seq)) + "\n")
    # subroutines that act on qubits used as operands of larger expressions: every operand's gates appear once, in order
    ops = ["+", "*", "-", "<", "==", "&", "<<"]
    for k, op in enumerate(ops):
        out.append(H3 + pre + "def p1(qubit a) -> int[8] { h a; return 2; }\ndef p2(qubit a) -> int[8] { x a; s a; return 1; }\n"
                   "int[16] r = p1(q[0]) %s p2(q[1]);\nrx(r) q[2];\nint[16] u = 3 %s p2(q[0]);\nrx(u) q[1];\n"
                   "int[16] w = (p1(q[2]) %s p2(q[2])) + p1(q[0]);\nrz(w) q[0];\nrx(p2(q[1]) %s p1(q[1])) q[0];\n" % (op, op, op, op))
    out.append(H3 + pre + "def p1(qubit a) -> bool { h a; return true; }\ndef p2(qubit a) -> bool { x a; return false; }\n"
               "bool b1 = p1(q[0]) && p2(q[1]);\nbool b2 = p2(q[0]) || p1(q[1]);\nbool b3 = !p1(q[2]);\nif (b1 || b2) { z q[0]; }\nrx(-f(q[0:2], 1)) q[2];\n")
    out.append(H3 + pre + "for int i in [0:2] { inv @ g(i) q[0], q[1]; g(i) q[1], q[2]; }\n")
    out.append(H3 + pre + "for int i in [0:1] { int[8] t = f(q[0:2], i); rx(t) q[2]; }\n")
    return out


def array_cases(rnd, n):
    """classical arrays: declarations with literals, element / slice reads and writes, sizeof, loops,
    arrays passed by reference (whole and sliced views, readonly and mutable) -- observed through gate
    angles and qubit indices (C07, C08); a share of the indices and values is out of range on purpose"""
    out = []
    tys = [("int[8]", "int"), ("int[16]", "int"), ("uint[4]", "uint"), ("float[64]", "float"), ("float[32]", "float"), ("bool", "bool")]

    def val(kind, bad=False):
        if kind == "int":
            return str(rnd.choice([300, -200]) if bad else rnd.randint(-5, 9))
        if kind == "uint":
            return str(-3 if bad else rnd.randint(0, 15))
        if kind == "float":
            return rnd.choice(["0.5", "1.25", "-2.75", "3", "0.1", "2.5e-1"])
        return rnd.choice(["true", "false"])

    def lit(kind, dims, bad=False):
        if len(dims) == 1:
            return "{" + ", ".join(val(kind, bad and rnd.random() < 0.5) for _ in range(dims[0])) + "}"
        return "{" + ", ".join(lit(kind, dims[1:], bad) for _ in range(dims[0])) + "}"

    def idx(d, p_bad):
        if rnd.random() < p_bad:
            return rnd.choice([d, d + 1, -1])
        return rnd.randrange(d)

    def rng(d, p_bad):
        a = idx(d, p_bad)
        b = idx(d, p_bad) if rnd.random() < 0.7 else d - 1
        bad = rnd.random() < p_bad
        if rnd.random() < 0.3:
            st = rnd.choice([1, 2, 2, 3, -1, -2])
            if not bad and ((st > 0 and a > b) or (st < 0 and a < b)):
                a, b = b, a
            return "%d:%d:%d" % (a, st, b), a, b, st
        if not bad and a > b:
            a, b = b, a
        c = rnd.random()
        if c < 0.15:
            return "%d:" % a, a, d - 1, 1            # open end: the last index of this dimension
        if c < 0.25:
            return ":%d" % b, 0, b, 1
        if c < 0.3:
            return ":", 0, d - 1, 1
        return "%d:%d" % (a, b), a, b, 1

    for _ in range(n):
        p_bad = 0.0 if rnd.random() < 0.75 else 0.15
        ty, kind = rnd.choice(tys)
        dims = [rnd.choice([1, 2, 3, 4, 4, 6, 7])] if rnd.random() < 0.65 else [rnd.randint(1, 3), rnd.choice([1, 2, 3, 5])]
        L = ["qubit[4] q;", "int[8] k = %d;" % rnd.randint(0, 2)]
        L.append("array[%s, %s] a = %s;" % (ty, ", ".join(map(str, dims)), lit(kind, dims, bad=(p_bad > 0 and rnd.random() < 0.2))))
        if rnd.random() < 0.3:
            L.append("array[%s, %s] b;" % (ty, ", ".join(map(str, dims))))

        def elem(name="a", p=p_bad):
            if len(dims) == 1:
                return "%s[%s]" % (name, rnd.choice(["k", str(idx(dims[0], p))]) if dims[0] > 2 else idx(dims[0], p))
            if rnd.random() < 0.5:
                return "%s[%d][%d]" % (name, idx(dims[0], p), idx(dims[1], p))
            return "%s[%d, %d]" % (name, idx(dims[0], p), idx(dims[1], p))

        if len(dims) == 2 and rnd.random() < 0.6:
            # rows and columns move between a 2-D array and a 1-D one through slices (open-ended or not)
            L.append("array[%s, %d] row;" % (ty, dims[1]))
            i = idx(dims[0], p_bad)
            lo = rnd.randrange(dims[1])
            form = rnd.choice([(":", ":"), ("%d:" % lo, "%d:" % lo), ("%d:%d" % (lo, dims[1] - 1), "%d:" % lo), (":%d" % lo, "0:%d" % lo)])
            L.append("row[:] = a[%d, :];" % idx(dims[0], p_bad))
            L.append("row[%s] = a[%d, %s];" % (form[0], i, form[1]))
            L.append("rx(row[%d]) q[0];" % rnd.randrange(dims[1]))
            if rnd.random() < 0.5:
                L.append("row[%d] = %s;" % (rnd.randrange(dims[1]), val(kind)))
                L.append("a[%d, %s] = row[%s];" % (idx(dims[0], p_bad), form[1], form[0]))
        for _k in range(rnd.randint(2, 6)):
            c = rnd.random()
            if c < 0.3:
                L.append("rx(%s) q[%d];" % (elem(), rnd.randrange(4)))
            elif c < 0.45:
                L.append("%s %s %s;" % (elem(), rnd.choice(["=", "=", "="] if kind in ("bool",) else ["=", "=", "="]), val(kind, p_bad > 0 and rnd.random() < 0.3)))
            elif c < 0.55 and kind in ("int", "uint"):
                L.append("%s = %s + %s;" % (elem(), elem(), val(kind)))
            elif c < 0.65:
                r1 = rng(dims[0], p_bad)[0]
                if len(dims) == 1:
                    L.append("a[%s] = %s;" % (r1, val(kind)))
                else:
                    L.append("a[%s, %d] = %s;" % (r1, idx(dims[1], p_bad), val(kind)))
            elif c < 0.75 and len(L) > 3 and L[3].startswith("array") and len(dims) == 1:
                r1, a1, b1, s1 = rng(dims[0], p_bad)
                r2, a2, b2, s2 = rng(dims[0], p_bad)
                L.append("b[%s] = a[%s];" % (r1, r2))
                L.append("rx(%s) q[0];" % elem("b", 0.0))
            elif c < 0.78 and len(dims) == 1 and dims[0] >= 3:
                # a strided slice copied into a fresh array of exactly the selected length, then read back
                r1, a1, b1, s1 = rng(dims[0], 0.0)
                cnt = len(range(*slice(a1, b1 + 1, s1).indices(dims[0])))
                if cnt >= 2:
                    nm = "t%d" % len(L)
                    L.append("array[%s, %d] %s;" % (ty, cnt, nm))
                    L.append("%s[0:%d] = a[%s];" % (nm, cnt - 1, r1))
                    L.append("rx(%s[%d]) q[%d];" % (nm, cnt - 1, rnd.randrange(4)))
            elif c < 0.82:
                L.append("rx(sizeof(a%s)) q[1];" % rnd.choice(["", ", 0", ", %d" % (len(dims) - 1), ", %d" % len(dims)]))
            elif c < 0.9 and len(dims) == 1:
                L.append("for int i in [0:%d] { rx(a[i]) q[i %% 4]; %s }" % (dims[0] - 1 + (1 if rnd.random() < p_bad else 0),
                                                                           "a[i] = %s;" % val(kind) if rnd.random() < 0.5 else ""))
            elif kind in ("int", "uint"):
                L.append("x q[%s & 3];" % elem())
            else:
                L.append("rx(%s) q[2];" % elem())
        # by-reference subroutine
        if rnd.random() < 0.5:
            acc = rnd.choice(["mutable", "mutable", "readonly"])
            nd = len(dims)
            if rnd.random() < 0.5:
                formal = "%s array[%s, #dim=%d] fa" % (acc, ty, nd if rnd.random() >= p_bad else nd + 1)
            else:
                formal = "%s array[%s, %s] fa" % (acc, ty, ", ".join(str((d if rnd.random() < 0.6 else rnd.randint(1, d)) if rnd.random() >= p_bad else d + 1) for d in dims))
            body = []
            z = ", 0" * (nd - 1)
            if acc == "mutable" or rnd.random() < p_bad:
                body.append("fa[0%s] = %s;" % (z, val(kind)))
            body.append("rx(fa[0%s]) fq;" % z)
            if rnd.random() < 0.5 and dims[0] > 1:
                body.append("fa[1%s] = fa[0%s];" % (z, z))
            L.insert(1, "def f(%s, qubit fq) { %s }" % (formal, " ".join(body)))
            if rnd.random() < 0.5:
                actual = "a"
            elif nd == 1:
                actual = "a[%s]" % rng(dims[0], p_bad)[0]
            else:
                actual = "a[%s, %s]" % (rng(dims[0], p_bad)[0], rng(dims[1], p_bad)[0])
            L.append("f(%s, q[3]);" % actual)
            for _k in range(2):
                L.append("rx(%s) q[%d];" % (elem(p=0.0), rnd.randrange(3)))
        out.append(H3 + "\n".join(L) + "\n")
    return out


def loop_fragment_cases(rnd, n):
    """programs of the fragment of coq/Lang/LoopProofs.v: includes, registers, flat basis-gate operations with literal
    parameters, and top-level loops `for int i in [a:b]` over such operations indexed by literals or the loop variable
    (theorem loops_unroll_to_their_instances says what unroll() must emit for every one of them); a share leaves the
    fragment on purpose (an index outside the register in some iteration, a repeated operand at one value)"""
    out = []
    PEXPR = ["0.5", "2", "1.25", "3", "-0.5", "pi / 2", "-pi", "2 * pi / 3", "tau - 1", "1 + 2", "3.5 / 2"]
    g1 = ["h", "x", "y", "z", "s", "t", "sdg", "tdg", "sx", "id"]
    gp = ["rx", "ry", "rz"]
    g2 = ["cx", "cz", "swap"]
    for _ in range(n):
        nq, nc = rnd.randint(3, 6), rnd.randint(2, 4)
        bad = rnd.random() < 0.12
        L = ["qubit[%d] q;" % nq, "bit[%d] c;" % nc]

        def op(var, lo, hi):
            """one operation; `var` indexes when it fits the register for every value lo..hi"""
            def qidx(limit, avoid=()):
                if var and hi < limit and lo >= 0 and rnd.random() < 0.6 and var not in avoid:
                    return var
                ks = [k for k in range(limit) if k not in avoid and not (var in avoid and lo <= k <= hi)]
                return rnd.choice(ks) if ks else None
            c = rnd.random()
            if c < 0.3:
                return "%s q[%s];" % (rnd.choice(g1), qidx(nq))
            if c < 0.5:
                return "%s(%s) q[%s];" % (rnd.choice(gp), rnd.choice(PEXPR if var is None else ["0.5", "2", "1.25", "3"]), qidx(nq))
            if c < 0.7:
                a = qidx(nq)
                b = qidx(nq, avoid=(a,) if a != var else (var,) + tuple(range(lo, hi + 1)))
                if b is None or (a == var and b == var):
                    return "h q[%s];" % a
                if a != var and b == var and lo <= a <= hi:
                    return "x q[%s];" % a
                return "%s q[%s], q[%s];" % (rnd.choice(g2), a, b)
            if c < 0.8:
                return "c[%s] = measure q[%s];" % (qidx(nc), qidx(nq))
            if c < 0.9:
                return "reset q[%s];" % qidx(nq)
            return "barrier q[%s];" % qidx(nq)
        # gate definitions (library gates on the formals, parameters literal or formal) and calls with literal actuals
        defs = []
        for d in range(rnd.randint(0, 3)):
            k = rnd.randint(1, 3)
            formals = ["a", "b", "c"][:k]
            params = ["t", "u"][: rnd.randint(0, 2)]
            body = []
            for _j in range(rnd.randint(1, 4)):
                c = rnd.random()
                if c < 0.4:
                    body.append("%s%s %s;" % (rnd.choice(["", "", "", "inv @ ", "pow(2) @ "]), rnd.choice([g for g in g1 if g != "sx"]), rnd.choice(formals)))
                elif c < 0.7 or k == 1:
                    body.append("%s(%s) %s;" % (rnd.choice(gp), rnd.choice(params + [x + " * 2" for x in params] + ["-" + x for x in params] + ["0.25", "2", "pi / 4"]), rnd.choice(formals)))
                else:
                    x, y = rnd.sample(formals, 2)
                    body.append("%s %s, %s;" % (rnd.choice(g2), x, y))
            # a call of a gate defined earlier (nesting), on formals, with a parameter expression passed down
            for pn, ppar, pk in defs:
                if pk <= k and rnd.random() < 0.5:
                    body.insert(rnd.randint(0, len(body)), "%s%s %s;" % (pn, "(%s)" % ", ".join(rnd.choice(params + ["0.5", "pi"]) for _ in range(ppar)) if ppar else "",
                                                                         ", ".join(rnd.sample(formals, pk))))
            nm = "cg%d" % d
            L.append("gate %s%s %s { %s }" % (nm, "(%s)" % ", ".join(params) if params else "", ", ".join(formals), " ".join(body)))
            defs.append((nm, len(params), k))
        for _k in range(rnd.randint(2, 5)):
            if defs and rnd.random() < 0.35:
                nm, npar, k = rnd.choice(defs)
                qs = rnd.sample(range(nq), k) if not (bad and rnd.random() < 0.3) else [rnd.randrange(nq)] * k
                L.append("%s%s %s;" % (nm, "(%s)" % ", ".join(rnd.choice(PEXPR) for _ in range(npar)) if npar else "",
                                       ", ".join("q[%d]" % x for x in qs)))
            elif rnd.random() < 0.55:
                lo = rnd.randint(0, 2)
                hi = rnd.randint(lo - 1, min(nq, nc) - 1)
                if hi < 0:
                    lo, hi = 1, 0          # an empty range without a negated literal
                if bad and rnd.random() < 0.5:
                    hi = nq + rnd.randint(0, 1)
                body = [op("i", lo, hi) for _j in range(rnd.randint(1, 3))]
                if 0 <= lo <= hi < nq and rnd.random() < 0.5:
                    # richer body statements (Lang/LoopModProofs.v): library gates, modifiers, closed parameter expressions on q[i]
                    c2 = rnd.random()
                    others = [k for k in range(nq) if not lo <= k <= hi]
                    if c2 < 0.3:
                        body.append("%s @ %s q[i];" % (rnd.choice(["inv", "pow(2)", "inv @ pow(2)", "pow(-1)"]), rnd.choice(["s", "t", "h", "x", "sdg"])))
                    elif c2 < 0.55:
                        body.append("%s(%s) q[i];" % (rnd.choice(gp + ["p", "u1"] if "p" in LIB else gp), rnd.choice(PEXPR)))
                    elif c2 < 0.75 and others:
                        body.append("%s q[i], q[%d];" % (rnd.choice(["cnot", "ch", "cy", "cx"]), rnd.choice(others)))
                    elif c2 < 0.9:
                        body.append("u3(%s, %s, %s) q[i];" % tuple(rnd.choice(PEXPR) for _ in range(3)))
                    else:
                        body.append("inv @ rx(%s) q[i];" % rnd.choice(PEXPR))
                if defs and 0 <= lo <= hi < nq and rnd.random() < 0.4:
                    # a call of a defined gate inside the loop body, its first operand indexed by the loop variable
                    nm, npar, k = rnd.choice(defs)
                    others = [z for z in range(nq) if not lo <= z <= hi]
                    if len(others) >= k - 1:
                        ops_ = ["q[i]"] + ["q[%d]" % z for z in rnd.sample(others, k - 1)]
                        body.append("%s%s %s;" % (nm, "(%s)" % ", ".join(rnd.choice(PEXPR) for _ in range(npar)) if npar else "", ", ".join(ops_)))
                if bad and rnd.random() < 0.5:
                    body.append("cx q[%d], q[i];" % rnd.randint(lo, max(lo, hi)))
                L.append("for int i in [%d:%d] { %s }" % (lo, hi, " ".join(body)))
            elif rnd.random() < 0.4:
                # an operation on a whole register: one operation per bit (Lang/BroadcastProofs.v)
                c = rnd.random()
                def reg(r, size):
                    """the whole register, or a slice of it with literal ends"""
                    z = rnd.random()
                    if z < 0.55:
                        return r, size
                    a = rnd.randrange(size)
                    b = rnd.randint(a, size - 1)
                    if z < 0.7:
                        return "%s[%d:]" % (r, a), size - a
                    if z < 0.8:
                        return "%s[:%d]" % (r, b), b + 1
                    return "%s[%d:%d]" % (r, a, b), b - a + 1
                if c < 0.3:
                    L.append("%s %s;" % (rnd.choice(g1), reg("q", nq)[0]))
                elif c < 0.45:
                    L.append("%s(%s) q;" % (rnd.choice(gp), rnd.choice(["0.5", "2"])))
                elif c < 0.6:
                    L.append("reset %s;" % reg("q", nq)[0])
                elif c < 0.8:
                    L.append("barrier q;" if rnd.random() < 0.6 else "barrier q[%d], q[%d];" % tuple(rnd.sample(range(nq), 2)))
                elif rnd.random() < 0.5:
                    k = rnd.randint(1, min(nq, nc))
                    a, b = rnd.randint(0, nq - k), rnd.randint(0, nc - k)
                    L.append("c[%d:%d] = measure q[%d:%d];" % (b, b + k - 1, a, a + k - 1))
                elif nq == nc or bad:
                    L.append("c = measure q;")
                else:
                    L.append("%s q;" % rnd.choice(g2 if bad else g1))
            elif rnd.random() < 0.3:
                # modifiers on a basis gate (Lang/ModUnrollProofs.v): inv, pow(k) with k of any sign, composed
                mods = " @ ".join(rnd.choice(["inv", "inv", "pow(2)", "pow(3)", "pow(0)", "pow(-1)", "pow(-2)", "pow(1)"]) for _ in range(rnd.randint(1, 3)))
                c = rnd.random()
                if c < 0.5:
                    L.append("%s @ %s q[%d];" % (mods, rnd.choice([g for g in g1 if g != "sx"]), rnd.randrange(nq)))
                elif c < 0.75:
                    L.append("%s @ %s(%s) q[%d];" % (mods, rnd.choice(gp), rnd.choice(PEXPR), rnd.randrange(nq)))
                else:
                    x, y = rnd.sample(range(nq), 2)
                    L.append("%s @ %s q[%d], q[%d];" % (mods, rnd.choice(g2), x, y))
            elif rnd.random() < 0.3:
                # any library gate (the operation tables lower it: cnot -> cx, u3 -> rz rx ...), possibly modified
                name = rnd.choice([g for g in sorted(LIB) if g not in ("xx_plus_yy", "xy", "ms")])
                npar, nqb = LIB[name]
                if nqb <= nq:
                    pre = rnd.choice(["", "", "inv @ ", "pow(2) @ "])
                    args = "(%s)" % ", ".join(rnd.choice(PEXPR) for _ in range(npar)) if npar else ""
                    if nqb and nq % nqb == 0 and rnd.random() < 0.3:
                        L.append("%s%s%s q;" % (pre, name, args))          # broadcast over the whole register in groups of the arity
                    else:
                        L.append("%s%s%s %s;" % (pre, name, args, ", ".join("q[%d]" % x for x in rnd.sample(range(nq), nqb))))
            else:
                L.append(op(None, 0, -1))
        if rnd.random() < 0.3:
            # a measurement-conditioned block with library gates, modifiers and closed parameters inside (Lang/BranchProofs.v)
            def bst():
                c3 = rnd.random()
                if c3 < 0.3:
                    return "%s q[%d];" % (rnd.choice(g1), rnd.randrange(nq))
                if c3 < 0.5:
                    return "%s @ %s q[%d];" % (rnd.choice(["inv", "pow(2)"]), rnd.choice(["s", "t", "x", "h"]), rnd.randrange(nq))
                if c3 < 0.7:
                    return "%s(%s) q[%d];" % (rnd.choice(gp), rnd.choice(PEXPR), rnd.randrange(nq))
                if defs and c3 < 0.85:
                    nm, npar, k = rnd.choice(defs)
                    return "%s%s %s;" % (nm, "(%s)" % ", ".join(rnd.choice(PEXPR) for _ in range(npar)) if npar else "",
                                         ", ".join("q[%d]" % z for z in rnd.sample(range(nq), k)))
                x, y = rnd.sample(range(nq), 2)
                return "%s q[%d], q[%d];" % (rnd.choice(["cnot", "cx", "ch", "cz"]), x, y)
            cb = rnd.randrange(nc)
            cond = rnd.choice(["c[%d] == true" % cb, "c[%d] == false" % cb, "c == %d" % rnd.randint(0, 2 ** nc - 1)])
            els = " else { %s }" % " ".join(bst() for _ in range(rnd.randint(1, 2))) if rnd.random() < 0.4 else ""
            L.append("c[%d] = measure q[%d];" % (cb, rnd.randrange(nq)))
            L.append("if (%s) { %s }%s" % (cond, " ".join(bst() for _ in range(rnd.randint(1, 3))), els))
        if rnd.random() < 0.15:
            # a global phase without operands: folded to its value, repeated / negated by its modifiers
            L.append("%sgphase(%s);" % (rnd.choice(["", "", "inv @ ", "pow(2) @ ", "pow(0) @ "]), rnd.choice(PEXPR)))
        if rnd.random() < 0.25:
            # a register declared without a size is a register of size 1
            L.insert(2, "qubit a;")
            L.append(rnd.choice(["h a;", "x a[0];", "cx a, q[0];", "cx q[1], a[0];", "reset a;", "barrier a;"]))
        out.append(H3 + "\n".join(L) + "\n")
    return out


def array_arith_cases():
    """elements of an array of every element type combined with each other (and with scalars of the same type) by the
    arithmetic operators inside a larger expression, the result used as an angle, a qubit index, a loop bound and an
    initialiser: an element read from an array computes exactly like the scalar it holds (C07)"""
    out = []
    tys = [("bool", ["true", "true", "false", "true"]), ("int[8]", ["3", "-2", "1", "2"]), ("uint[4]", ["3", "1", "0", "2"]),
           ("uint[8]", ["200", "100", "1", "2"]), ("int[16]", ["300", "-7", "1", "2"]), ("float[32]", ["0.5", "1.25", "1", "2"]),
           ("float[64]", ["0.1", "2.5", "1", "2"])]
    for ty, vs in tys:
        pre = "qubit[8] q;\narray[%s, 4] f = {%s};\n%s s0 = %s;\n%s s1 = %s;\n" % (ty, ", ".join(vs), ty, vs[0], ty, vs[1])
        for op in ["+", "*", "-"]:
            exprs = ["f[0] %s f[1]" % op, "f[0] %s f[1] %s f[3]" % (op, op), "f[0] %s s1" % op, "s0 %s f[1]" % op, "s0 %s s1" % op,
                     "f[0] * 2 %s f[1] %s f[0]" % (op, op), "(f[0] %s f[3]) * (f[1] + f[0])" % op, "-(f[0] %s f[1])" % op]
            L = ["rx(%s) q[0];" % e for e in exprs]
            L.append("int[32] n = %s;\nrz(n) q[1];" % exprs[1])
            L.append("float[64] w = %s;\nry(w) q[2];" % exprs[0])
            if not ty.startswith("float"):
                L.append("x q[(%s) & 7];" % exprs[0])
                L.append("for int i in [0:(%s) & 3] { h q[i]; }" % exprs[1])
                L.append("pow((%s) & 3) @ y q[3];" % exprs[0])
            out.append(H3 + pre + "\n".join(L) + "\n")
        # the same through an element written after the declaration and through a 2-D array
        out.append(H3 + "qubit[4] q;\narray[%s, 2, 2] g = {{%s, %s}, {%s, %s}};\ng[1, 1] = %s;\nrx(g[0, 0] + g[0, 1] + g[1, 1]) q[0];\n"
                   "rx(g[0][0] * g[1][1] + g[0][1]) q[1];\n" % (ty, vs[0], vs[1], vs[2], vs[3], vs[0]))
    return out


def sub_body_block_cases():
    """every kind of quantum statement inside every kind of block inside a subroutine body: the formal
    qubits must be translated to the caller's qubits there exactly as at the top of the body (C02)"""
    out = []
    stmts = ["h p[0];", "cx p[0], p[1];", "barrier p;", "barrier p[1];", "barrier p[0], p[1];", "reset p[1];", "reset p;",
             "rx(0.5) p;", "cb[0] = measure p[1];", "ctrl @ x p[1], p[0];", "inv @ s p[1];"]
    blocks = ["%s", "for int i in [0:1] { %s }", "if (true) { %s }", "if (false) { x p[0]; } else { %s }",
              "switch (n) { case 1 { %s } default { x p[0]; } }", "for int i in [0:0] { if (i == 0) { %s } }",
              "if (n == 1) { for int j in {3} { %s } }"]
    for formal, regs in (("p", "qubit[4] q;\nbit[2] cb;\n"), ("q", "qubit[4] q;\nbit[2] cb;\n"), ("p", "qubit[2] p;\nqubit[4] q;\nbit[2] cb;\n")):
        for st in stmts:
            for bl in blocks:
                body = (bl % st).replace("p[", formal + "[").replace(" p;", " %s;" % formal).replace(" p,", " %s," % formal)
                if "measure" in st:
                    continue
                out.append(H3 + regs + "def f(qubit[2] %s, int[8] n) { %s }\nf(q[2:4], 1);\nf(q[{3, 0}], 1);\n" % (formal, body))
    return out


def cast_use_cases():
    """a value of every kind stored into a variable of every type, and the variable then used wherever the
    output must carry a number: gate angle, qubit / bit index, loop bound, pow count, switch target (C03, C07)"""
    out = []
    pre = "qubit[4] q;\nbit[4] c;\nbool bv = true;\nfloat[64] fw = 1.7;\n"
    decls = [("int[8]", "3 > 2"), ("int[8]", "true"), ("int[8]", "bv"), ("int[8]", "bv && true"), ("int", "2 == 2"), ("uint[4]", "true"),
             ("uint[4]", "!bv"), ("int[8]", "1.7"), ("int[8]", "fw"), ("int[8]", "-0.5"), ("uint[4]", "2.9"),
             ("float[64]", "true"), ("float[64]", "2"), ("float[32]", "bv"), ("bool", "2"), ("bool", "0.5"), ("bool", "fw"),
             ("const int[8]", "2 > 1"), ("const uint[4]", "true"), ("const uint[4]", "17"), ("const uint[8]", "-1"), ("const int[8]", "7.9"),
             ("const bool", "5"), ("const float[64]", "3"), ("const uint[2]", "5")]
    for ty, e in decls:
        idx = ty.replace("const ", "").startswith(("int", "uint"))
        uses = ["rx(m) q[0];", "rz(m * 2) q[1];", "pow(m) @ x q[1];" if idx else "gphase(m);"]
        if idx:
            uses += ["h q[m];", "cx q[2], q[m];", "c[m] = measure q[m];", "reset q[m];", "barrier q[m];", "for int i in [0:m] { x q[i]; }",
                     "switch (m) { case 0 { x q[0]; } case 1 { y q[0]; } default { z q[0]; } }",
                     "c[0] = measure q[1];\nif (c == m) { x q[0]; } else { y q[0]; }", "if (c[1] == m) { z q[1]; }"]
        else:
            uses += ["if (m == 1) { x q[0]; } else { y q[0]; }"]
        out.append(H3 + pre + "%s m = %s;\n" % (ty, e) + "\n".join(uses) + "\n")
        if not ty.startswith("const"):
            out.append(H3 + pre + "%s m;\nm = %s;\n" % (ty, e) + "\n".join(uses[:4]) + "\n")
            out.append(H3 + pre + "def f(%s a) -> %s { return a; }\n%s m = f(%s);\n" % (ty, ty, ty, e) + "\n".join(uses[:4]) + "\n")
    return out


def nonfinite_param_cases():
    """gate parameters whose folded value is not a finite double (C03 only: such a program has no meaning to compare)"""
    out = []
    pre = "qubit[4] q;\nbit[2] c;\n"
    # parameter expressions that overflow the doubles they are folded in (inf): a literal the language cannot write
    for e in ("1e308 * 10", "-1e308 * 10", "1e200 * 1e200"):   # (no nan: the oracles compare values, and nan differs from itself)
        out.append(H3 + pre + "rx(%s) q[0];\n" % e)
        out.append(H3 + pre + "gate g(t) a { rz(t * 1e308) a; }\ng(%s) q[1];\nh q[0];\n" % e)
        out.append(H3 + pre + "c[0] = measure q[0];\nif (c[0] == 1) { ry(%s) q[1]; }\n" % e)
    return out


def folded_value_cases():
    """values that reach the output through a numpy scalar, a boolean or an initialiser: bit registers declared with a
    computed initial value (variable, expression, subroutine result, loop variable), boolean register indices, custom
    gates applied with array elements, elements of uint arrays stored in variables of every type (C01, C03, C07)"""
    out = []
    pre = "qubit[4] q;\nbit[2] c;\nint[8] n = 1;\nbool bt = true;\nbool bf = false;\nconst int[8] k = 2;\n"
    inits = ["n", "n + 1", "n - 1", "bt", "bf", "!bt", "k", "k - 2", "1 + 0", "-n + 1", "f(q[3])", "2 * n", "n == 1", "true", "1", "0"]
    subs = "def f(qubit a) -> int[8] { h a; return 1; }\n"
    for e in inits:
        for ty in ("bit", "bit[1]", "bit[3]"):
            out.append(H3 + pre + subs + "%s b = %s;\nb[0] = measure q[0];\nif (b[0] == 1) { x q[1]; }\n" % (ty, e))
    out.append(H3 + pre + "for int i in [0:1] { if (i == 1) { bit[2] t = i + n; t[i] = measure q[i]; } }\nh q[0];\n")
    out.append(H3 + pre + "if (bt) { bit w = n; w[0] = measure q[2]; }\nswitch (n) { case 1 { bit[2] u = k; u[1] = measure q[0]; } default { x q[0]; } }\n")
    for idx in ("bt", "bf", "!bf", "bt && bt", "n == 1", "true", "false"):
        out.append(H3 + pre + "h q[%s];\ncx q[2], q[%s];\nc[%s] = measure q[3];\nreset q[%s];\nbarrier q[%s];\n" % (idx, idx, idx, idx, idx))
        out.append(H3 + pre + "def g(qubit a) { h a; }\ng(q[%s]);\nlet al = q[1:3];\nx al[%s];\n" % (idx, idx))
    arrs = [("int[32]", "{1, 2, 3}"), ("int[8]", "{-1, 0, 3}"), ("uint[8]", "{1, 2, 3}"), ("bool", "{true, false, true}"), ("float[64]", "{0.5, 1.5, -2.25}")]
    for ty, lit in arrs:
        a = "array[%s, 3] arr = %s;\n" % (ty, lit)
        out.append(H3 + pre + a + "gate g(t) x { rx(t) x; }\ngate g2(s, t) x, y { rz(s + t) x; cx x, y; ry(t) y; }\n"
                   "g(arr[1]) q[0];\ng(arr[2]) q[1];\ng2(arr[0], arr[2]) q[2], q[3];\nfor int i in [0:2] { g(arr[i]) q[i]; }\ninv @ g(arr[0]) q[0];\npow(2) @ g2(arr[1], 0.5) q[0], q[1];\n")
        for vt in ("int[8]", "int[32]", "uint[4]", "float[64]", "bool", "bit"):
            use = "b[0] = measure q[0];" if vt == "bit" else "rx(b) q[0];"
            out.append(H3 + pre + a + "%s b = arr[1];\n%s\n%s b2 = arr[2];\n%s\n" % (vt, use, vt, use.replace("b", "b2") if vt != "bit" else "b2[0] = measure q[1];"))
            if vt != "bit":
                out.append(H3 + pre + a + "%s b;\nb = arr[0];\nrz(b) q[1];\ndef h2(%s z, qubit a) { rx(z) a; }\nh2(arr[2], q[2]);\n" % (vt, vt))
        # elements in arithmetic (the value, not a fixed-width machine integer), under modifiers that negate, in gates that negate
        if not ty.startswith("bool"):
            out.append(H3 + pre + a + "rz(-arr[1]) q[0];\nrx(arr[0] - arr[2]) q[1];\nint[8] d = arr[0] - arr[2];\nry(d) q[2];\ninv @ rx(arr[2]) q[0];\n"
                       "crx(arr[0]) q[0], q[1];\npow(2) @ inv @ rz(arr[1] * 2) q[3];\nfloat[64] fd = arr[1] - 3;\nrx(fd) q[2];\nrx(arr[0] * arr[2] - 4) q[3];\n")
    return out


def strided_slice_cases():
    """every start / step / end of a strided slice on arrays of 4..7 cells, read (copied into an array of exactly the
    selected length, element by element comparison through gate angles), written, and passed by reference (C07, C08)"""
    out = []
    for d in (4, 5, 7):
        vals = ", ".join(str(10 + i) for i in range(d))
        for st in (2, 3, -2):
            for a in range(d):
                for b in range(d):
                    if (st > 0 and a >= b) or (st < 0 and a <= b):
                        continue
                    sel = list(range(d))[slice(a, b + 1, st)]
                    if len(sel) < 2:
                        continue
                    n = len(sel)
                    pre = "qubit[4] q;\narray[int[8], %d] a = {%s};\n" % (d, vals)
                    reads = "".join("rx(t[%d]) q[%d];\n" % (i, i % 4) for i in range(n))
                    out.append(H3 + pre + "array[int[8], %d] t;\nt[0:%d] = a[%d:%d:%d];\n" % (n, n - 1, a, st, b) + reads)
                    out.append(H3 + pre + "a[%d:%d:%d] = 7;\n" % (a, st, b) + "".join("rx(a[%d]) q[%d];\n" % (i, i % 4) for i in range(d)))
                    out.append(H3 + "qubit[4] q;\ndef f(mutable array[int[8], #dim=1] v, qubit p) { rx(v[%d]) p; v[0] = 1; }\n" % (n - 1)
                               + "array[int[8], %d] a = {%s};\nf(a[%d:%d:%d], q[0]);\n" % (d, vals, a, st, b)
                               + "".join("rx(a[%d]) q[%d];\n" % (i, i % 4) for i in range(d)))
    return out


def loop_slice_cases():
    """slices whose bounds depend on the loop variable, in every kind of statement that takes operands: each
    iteration resolves its own bounds (C02)"""
    out = []
    pre = "qubit[6] q;\nbit[6] c;\ndef f(qubit[2] p) { cx p[0], p[1]; }\ndef g1(qubit p) { h p; }\n"
    stmts = ["f(q[i:i+2]);", "let al = q[i:i+2]; cx al[0], al[1];", "c[i:i+2] = measure q[i:i+2];", "reset q[i:i+2];",
             "barrier q[i:i+2];", "x q[i:i+2];", "f(q[{i, i + 2}]);", "g1(q[i + 1]);", "reset q[{i, i + 3}];", "measure q[i + 2] -> c[i];"]
    loops = ["for int i in [0:2] { %s }", "for int i in {3, 0, 2} { %s }", "for int i in [3:-1:1] { %s }", "for int j in [0:1] { for int i in [j:j+1] { %s } }"]
    for st in stmts:
        for lp in loops:
            out.append(H3 + pre + lp % st + "\n")
            out.append(H3 + pre + "def outer(qubit[6] r, int[8] n) { for int i in [0:n] { %s } }\nouter(q, 1);\nouter(q, 2);\n" % st.replace("q[", "r[").replace("c[i:i+2] = measure r[i:i+2];", "reset r[i:i+2];").replace("measure r[i + 2] -> c[i];", "reset r[i + 2];").replace("f(", "f(").replace("let al = r[i:i+2]; cx al[0], al[1];", "cx r[i], r[i + 1];"))
    return out


def repo_test_programs():
    """every OpenQASM program of the repository's own test suite (resource files and string literals of tests/**/*.py),
    read from the tree under test on every run: real-world shapes next to the generated ones"""
    import ast
    root = os.environ.get("VERIF_REPO", "/repo")
    out = []
    for dp, dn, fn in sorted(os.walk(os.path.join(root, "tests"))):
        for f in sorted(fn):
            p = os.path.join(dp, f)
            try:
                if f.endswith(".qasm"):
                    out.append(open(p).read())
                elif f.endswith(".py"):
                    tree = ast.parse(open(p).read())
                    for node in ast.walk(tree):
                        if isinstance(node, ast.Constant) and isinstance(node.value, str) and "OPENQASM" in node.value:
                            out.append(node.value)
                        elif isinstance(node, ast.JoinedStr):
                            parts = [v.value for v in node.values if isinstance(v, ast.Constant) and isinstance(v.value, str)]
                            if len(parts) == len(node.values) and any("OPENQASM" in x for x in parts):
                                out.append("".join(parts))
            except Exception:
                continue
    seen, res = set(), []
    for s in out:
        s = s.strip() + "\n"
        if s not in seen and s.lstrip().startswith(("OPENQASM", "//")):
            seen.add(s)
            res.append(s)
    return res
