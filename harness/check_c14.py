"""C14: remove_measurements/barriers/includes remove all and only those statements."""
import modcheck

PROP = "C14"
PREFIXES = [[], ["validate"], ["unroll"], ["depth"], ["has_measurements"], ["has_barriers", "unroll"], ["unroll", "validate"]]
REMOVERS = ["remove_measurements", "remove_barriers", "remove_includes"]
FLAG = {"remove_measurements": "has_measurements", "remove_barriers": "has_barriers"}


def make_cases(rnd, tier, progs):
    n = 500 if tier == "quick" else 8000
    # measurements / barriers at every nesting position (loops, conditionals, subroutines)
    ps = progs(120 if tier == "quick" else 600, dict(gates=4, measure=5, reset=1, barrier=5, if_meas=4, for_=4, call=3, if_ct=2))
    out = []
    for k in range(n):
        src = ps[k % len(ps)]
        body = [(0, q) for q in rnd.choice(PREFIXES)]
        nmod = 1
        t = rnd.choice(REMOVERS)
        inpl = rnd.random() < 0.7
        body.append((0, t, inpl))
        tgt = 0
        if not inpl:
            nmod, tgt = 2, 1
        if t in FLAG:
            body.append((tgt, FLAG[t]))
        body.append((tgt, "depth"))
        r = rnd.random()
        if r < 0.3:
            body.append((tgt, rnd.choice(REMOVERS), True))
        elif r < 0.45:
            body.append((tgt, "unroll"))
        hist, nobs = modcheck.hist_with_obs(rnd, body, nmod)
        out.append(dict(src=src, hist=hist, nobs=nobs, family="remove-kind"))
    out += modcheck.enumerated(rnd, REMOVERS, "removal-on-every-structured-program",
                               before=((), ("unroll",), ("has_measurements", "has_barriers")),
                               after=(("has_measurements", "has_barriers", "depth"), ("unroll", "has_measurements", "has_barriers"), ("depth", "unroll", "depth")))
    return out


def run(tier, seed, replay):
    if replay:
        return modcheck.replay_cmd(PROP, replay)
    return modcheck.run(PROP, tier, seed, make_cases, failed_call_after=("remove_measurements", "remove_barriers", "remove_includes"))
