"""Shared machinery of the /verif checks: Coq build under a lock, proof-status collection,
known findings, evidence files, VIOLATION reporting."""
import fcntl
import hashlib
import json
import os
import re
import shutil
import subprocess
import sys
import time

ROOT = os.path.dirname(os.path.dirname(os.path.abspath(__file__)))
REPO = os.environ.get("VERIF_REPO", "/repo")
COQ = os.environ.get("VERIF_COQ", os.path.join(ROOT, "coq"))   # overridable: scratch copy for runs against scratch worktrees
MAPS_REPORT = os.path.join(COQ, ".maps2coq_report.json")
PY = "/venv/bin/python"
NPROC = os.cpu_count() or 4
# evidence directory (overridable so that runs against scratch worktrees never clobber the committed evidence)
EVID = os.environ.get("VERIF_EVIDENCE", os.path.join(ROOT, "evidence"))

# axioms the standard library itself declares and that our theorems may depend on (DESIGN §7)
ALLOWED_AXIOMS = {
    "ClassicalDedekindReals.sig_forall_dec",
    "ClassicalDedekindReals.sig_not_dec",
    "FunctionalExtensionality.functional_extensionality_dep",
}
# primitives (not axioms) that Print Assumptions lists for PrimFloat / Uint63 users
ALLOWED_PRIMITIVE_PREFIXES = ("PrimFloat.", "Uint63.", "PrimInt63.", "FloatOps.", "FloatClass.", "PrimString.")


def run_dir():
    d = os.path.join(ROOT, ".run", "%d" % os.getpid())
    os.makedirs(d, exist_ok=True)
    return d


def cleanup_run_dir():
    d = os.path.join(ROOT, ".run", "%d" % os.getpid())
    shutil.rmtree(d, ignore_errors=True)


def pyqasm_env(seed=0):
    env = dict(os.environ)
    env["PYTHONPATH"] = os.path.join(REPO, "src")
    env["PYTHONHASHSEED"] = str(seed)
    env["QBRAID_PYQASM_VERIF"] = "1"
    return env


class BuildResult:
    def __init__(self):
        self.ok = True
        self.log = ""
        self.failed_target = None
        self.translator_error = None


def regenerate(log):
    """translator: maps.py -> GatesGen.v ; spec -> GateSpecGen.v (both on every run)"""
    gen = os.path.join(COQ, "Gates", "GatesGen.v")
    tmp = gen + ".tmp"
    rep = MAPS_REPORT
    p = subprocess.run([PY, os.path.join(ROOT, "translator", "maps2coq.py"),
                        os.path.join(REPO, "src", "pyqasm", "maps.py"), tmp, rep],
                       capture_output=True, text=True)
    log.append(p.stdout + p.stderr)
    if p.returncode != 0:
        return "translator failed: " + (p.stderr.strip().splitlines() or ["?"])[-1]
    _replace_if_changed(tmp, gen)
    spec = os.path.join(COQ, "Gates", "GateSpecGen.v")
    p = subprocess.run([PY, os.path.join(ROOT, "spec", "gates_spec.py"), spec + ".tmp"],
                       capture_output=True, text=True)
    if p.returncode != 0:
        return "spec generator failed: " + p.stderr[-300:]
    _replace_if_changed(spec + ".tmp", spec)
    # cast / range-check kernel: maps.py + validator.py -> Lang/CastGen.v.  A source the translator does not
    # accept leaves a CastGen.v that does not compile: the theorems that depend on it stop checking, the
    # rest of the development (and the correspondence) still builds.
    cg = os.path.join(COQ, "Lang", "CastGen.v")
    p = subprocess.run([PY, os.path.join(ROOT, "translator", "cast2coq.py"), os.path.join(REPO, "src", "pyqasm", "maps.py"),
                        os.path.join(REPO, "src", "pyqasm", "validator.py"), cg + ".tmp"], capture_output=True, text=True)
    log.append(p.stdout + p.stderr)
    if os.path.exists(cg + ".tmp"):
        _replace_if_changed(cg + ".tmp", cg)
    return None


def _replace_if_changed(tmp, dst):
    new = open(tmp, "rb").read()
    if os.path.exists(dst) and open(dst, "rb").read() == new:
        os.remove(tmp)
        return
    os.replace(tmp, dst)


def build(targets, fresh=(), timeout=1500):
    """make the given .vo targets (paths relative to coq/); `fresh` targets are recompiled
    unconditionally so that their Print Assumptions output is captured."""
    res = BuildResult()
    os.makedirs(os.path.join(ROOT, ".run"), exist_ok=True)
    lock = open(os.path.join(COQ, ".build.lock"), "w")
    fcntl.flock(lock, fcntl.LOCK_EX)
    try:
        log = []
        err = regenerate(log)
        if err:
            res.ok = False
            res.translator_error = err
            res.log = "\n".join(log)
            return res
        if not os.path.exists(os.path.join(COQ, "Makefile")) or \
                os.path.getmtime(os.path.join(COQ, "Makefile")) < os.path.getmtime(os.path.join(COQ, "_CoqProject")):
            subprocess.run(["coq_makefile", "-f", "_CoqProject", "-o", "Makefile"], cwd=COQ,
                           capture_output=True, text=True)
        for t in fresh:
            for ext in (".vo", ".vok", ".vos", ".glob"):
                f = os.path.join(COQ, os.path.splitext(t)[0] + ext)
                if os.path.exists(f):
                    os.remove(f)
        cmd = ["timeout", str(timeout), "make", "-k", "-j%d" % NPROC] + list(targets)
        p = subprocess.run(cmd, cwd=COQ, capture_output=True, text=True)
        res.log = "\n".join(log) + p.stdout + p.stderr
        if p.returncode != 0:
            res.ok = False
            m = re.search(r'File "\./([^"]+)", line (\d+), characters [^\n]*\nError', res.log) or \
                re.search(r'File "\./([^"]+)", line (\d+)', res.log)
            res.failed_target = "%s:%s" % (m.group(1), m.group(2)) if m else "make exit %d" % p.returncode
        return res
    finally:
        fcntl.flock(lock, fcntl.LOCK_UN)
        lock.close()


def parse_assumptions(log):
    """returns (closed_count, {axiom names}) from Print Assumptions output in a build log"""
    closed = len(re.findall(r"Closed under the global context", log))
    axioms = set()
    in_block = False
    for line in log.splitlines():
        if line.startswith("Axioms:"):
            in_block = True
            continue
        if in_block:
            if line.startswith((" ", "\t")):
                continue
            m = re.match(r"^([A-Za-z_][\w.']*)\s*(:.*)?$", line)
            if m and not line.startswith(("COQC", "COQDEP", "File ", "Error", "make", "Finished")):
                axioms.add(m.group(1))
            else:
                in_block = False
    LAST_ASSUMPTIONS.update(closed_theorems=closed, listed=sorted(axioms))
    return closed, axioms


LAST_ASSUMPTIONS = {}


# Print Assumptions prints the shortest unambiguous name: inside a file that imports PrimFloat the float
# primitives appear unqualified.  (No file of the development may declare an axiom of its own -- hygiene() --
# so a listed name can only come from a library.)
PRIMFLOAT_SHORT = {"float", "eqb", "ltb", "leb", "add", "sub", "mul", "div", "opp", "abs", "sqrt", "of_uint63",
                   "normfr_mantissa", "frshiftexp", "ldshiftexp", "classify", "compare", "next_up", "next_down"}


def axioms_ok(axioms):
    bad = []
    for a in axioms:
        if a in ALLOWED_AXIOMS or a.startswith(ALLOWED_PRIMITIVE_PREFIXES) or a in PRIMFLOAT_SHORT:
            continue
        bad.append(a)
    return bad


def hygiene():
    """no Admitted/admit/Axiom/... anywhere in the development (generated files included)"""
    pat = re.compile(r"\b(Admitted|admit|Axiom|Axioms|Parameter|Parameters|Conjecture|Hypothesis|Abort All|"
                     r"Unset Guard Checking|Unset Positivity Checking|Unset Universe Checking|bypass_check|"
                     r"type-in-type|impredicative-set|Admit Obligations)\b")
    hits = []
    for d, _, fs in os.walk(COQ):
        if os.path.basename(d) == "Cases":
            continue
        for f in fs:
            if not f.endswith(".v"):
                continue
            path = os.path.join(d, f)
            txt = open(path, encoding="utf-8").read()
            txt_nc = strip_comments(txt)
            for m in pat.finditer(txt_nc):
                # `Hypothesis`/`Variable` are fine inside a Section; only flag Hypothesis outside
                if m.group(1) == "Hypothesis" and _inside_section(txt_nc, m.start()):
                    continue
                hits.append("%s: %s" % (os.path.relpath(path, ROOT), m.group(1)))
    return hits


def strip_comments(txt):
    out, depth, i = [], 0, 0
    while i < len(txt):
        if txt.startswith("(*", i):
            depth += 1
            i += 2
        elif txt.startswith("*)", i) and depth:
            depth -= 1
            i += 2
        else:
            if depth == 0:
                out.append(txt[i])
            i += 1
    return "".join(out)


def _inside_section(txt, pos):
    opened = len(re.findall(r"^\s*Section\s+\w+\.", txt[:pos], re.M))
    closed = len(re.findall(r"^\s*End\s+\w+\.", txt[:pos], re.M))
    # module Ends are counted too; conservative enough for our files (no Modules)
    return opened > closed


def load_known(prop):
    path = os.path.join(ROOT, "known_findings.json")
    if not os.path.exists(path):
        return []
    data = json.load(open(path))
    return [e for e in data.get("findings", []) if e["property"] == prop]


def run_script_replays(chk, known):
    """known-findings entries whose replay is a small python script against the public API:
    non-zero exit = the defect is present"""
    for e in known:
        rp = e.get("replay", {})
        if rp.get("kind") != "script":
            continue
        pr = subprocess.run([PY, "-c", rp["code"]], capture_output=True, text=True, env=pyqasm_env())
        if pr.returncode != 0:
            if e["status"] == "known":
                chk.known("%s: %s" % (e["id"], e["what"][:100]))
            else:
                chk.violation("regressed_%s" % e["id"], {"kind": "script", "finding": e, "stderr": pr.stderr[-600:]})


def src_fingerprint():
    h = hashlib.sha256()
    for d, _, fs in sorted(os.walk(os.path.join(REPO, "src", "pyqasm"))):
        for f in sorted(fs):
            if f.endswith(".py"):
                h.update(open(os.path.join(d, f), "rb").read())
    return h.hexdigest()[:16]


class Check:
    """collects the outcome of one check run and writes evidence / replay files"""

    def __init__(self, prop, tier, seed):
        self.prop, self.tier, self.seed = prop, tier, seed
        self.t0 = time.time()
        self.violations = []      # (replay_path, suffix)
        self.known_lines = []
        self.coverage = {}
        self.assumptions = []
        os.makedirs(EVID, exist_ok=True)
        os.makedirs(os.path.join(EVID, "replay"), exist_ok=True)
        for f in os.listdir(os.path.join(EVID, "replay")):
            if f.startswith(prop + "_"):
                os.remove(os.path.join(EVID, "replay", f))

    def replay_path(self, tag):
        return os.path.join(EVID, "replay", "%s_%s.json" % (self.prop, tag))

    def violation(self, tag, payload, no_input=False):
        path = self.replay_path(tag)
        json.dump(payload, open(path, "w"), indent=1, default=str)
        self.violations.append((path, " no-failing-input-found" if no_input else ""))

    def known(self, what):
        self.known_lines.append(what)

    def finish(self, level="proof"):
        for w in dict.fromkeys(self.known_lines):
            print("KNOWN-FINDING: property=%s %s" % (self.prop, w))
        if LAST_ASSUMPTIONS and isinstance(self.coverage, dict):
            # what `Print Assumptions` reported under the property's theorems in this run's build
            self.coverage.setdefault("print_assumptions", dict(LAST_ASSUMPTIONS))
        ev = {
            "property_id": self.prop,
            "tier": self.tier,
            "seed": self.seed,
            "level": level,
            "coverage": self.coverage,
            "assumptions": self.assumptions,
            "wall_s": round(time.time() - self.t0, 2),
            "violations": len(self.violations),
        }
        json.dump(ev, open(os.path.join(EVID, "%s.json" % self.prop), "w"), indent=1, default=str)
        for path, suffix in self.violations:
            print("VIOLATION property=%s replay=%s%s" % (self.prop, path, suffix))
        cleanup_run_dir()
        sys.stdout.flush()
        return 1 if self.violations else 0
