"""C17: a rejected program leaves no trace, and modules never influence each other."""
import hashlib
import json
import multiprocessing
import os
import random
import re
import subprocess
import sys

import common
import gen
import langcheck
import modcheck
import modcorr

PROP = "C17"
OPS = ["validate", "unroll", "num_qubits", "num_clbits", "depth", "dumps", "has_measurements", "has_barriers"]
H = gen.H3
LATE_FAILURES = [
    # validate() (first loop iteration only) accepts, unroll() rejects
    H + "qubit[3] q;\nbit[2] c;\nh q[0];\nfor int i in [0:4] { x q[i]; }\nc[0] = measure q[0];\n",
    H + "qubit[2] q;\nint[4] k = 1;\nfor int i in [0:5] { k = k * 2; rx(k) q[0]; }\n",
    H + "qubit[2] q;\ndef f(qubit a, int[8] n) { for int j in [0:n] { h a; } }\nfor int i in [1:3] { f(q[0], i * 60); }\n",
    H + "qubit[2] q;\nbit[1] c;\nbarrier q;\nfor int i in {0, 1, 7} { h q[i]; }\n",
    # rejected in the middle of a gate body, a nested gate body, a subroutine body, a switch arm
    H + "gate ent a, b { h a; cx a, zz; }\nqubit[2] q;\nbit[2] c;\nent q[0], q[1];\nc = measure q;\n",
    H + "qubit[3] q;\ngate inner(t) a { rx(t) a; rx(nope) a; }\ngate outer a, b { cx a, b; inner(0.5) b; }\nh q[0];\nouter q[0], q[1];\n",
    H + "qubit[3] q;\ndef f(qubit[2] a, int[8] n) { h a[0]; for int i in [0:n] { x a[i]; } }\nf(q[0:2], 1);\nf(q[1:3], 3);\n",
    H + "qubit[3] q;\nint[8] sw = 2;\nswitch (sw) { case 1 { x q[0]; } case 2 { h q[1]; h q[5]; } default { z q[0]; } }\n",
    # everything an accepted prefix may have touched before the rejection: inverted and repeated custom gates with
    # order-sensitive bodies, modified gphase, loops, subroutine calls, aliases
    H + "qubit[3] q;\ngate seq x, y { s x; h y; cx x, y; t y; }\ninv @ seq q[0], q[1];\npow(2) @ inv @ seq q[1], q[2];\npow(2) @ gphase(0.25);\nh q[7];\n",
    H + "qubit[3] q;\ngate seq(a) x, y { rx(a) x; cx x, y; rz(a) y; }\ngate outer x, y { seq(0.5) x, y; inv @ seq(0.25) y, x; h x; }\n"
        "def f(qubit[2] p) { inv @ outer p[0], p[1]; }\nfor int i in [0:1] { f(q[i:i+2]); }\nlet al = q[{2, 0}];\ninv @ outer al[0], al[1];\nrx(nope) q[0];\n",
]


def call(m, op):
    """canonical outcome of one API call: ('ok', value) | ('error', class, message)"""
    import pyqasm
    try:
        if op == "dumps":
            return ("ok", pyqasm.dumps(m))
        if op in ("num_qubits", "num_clbits"):
            return ("ok", getattr(m, op))
        r = getattr(m, op)()
        return ("ok", r if op in ("depth", "has_measurements", "has_barriers") else None)
    except Exception as e:
        import re
        msg = re.sub(r"span=Span\([^)]*\)", "span", str(e))
        return ("error", type(e).__name__, msg[:300])


def _fresh_outcomes(src):
    import logging
    logging.disable(logging.CRITICAL)
    import pyqasm
    out = {}
    for op in OPS:
        try:
            m = pyqasm.loads(src)
        except Exception as e:
            return None
        out[op] = call(m, op)
    return out


def _history_worker(args):
    """on a program whose unroll() is rejected every call must behave as on a module never processed"""
    import logging
    logging.disable(logging.CRITICAL)
    import pyqasm
    src, hist = args
    fresh = _fresh_outcomes(src)
    if fresh is None or fresh["unroll"][0] != "error":
        return ("skip",)
    m = pyqasm.loads(src)
    literalised = False
    for k, op in enumerate(hist):
        got = call(m, op)
        if got != fresh[op]:
            if op == "dumps" and got[0] == "ok" and fresh[op][0] == "ok" and only_declared_sizes_differ(got[1], fresh[op][1]):
                literalised = True
                continue
            return ("diff", k, op, got, fresh[op])
    return ("literalised",) if literalised else ("ok",)


VISIT_FREE = ("remove_barriers", "remove_measurements", "remove_includes")


def _after_transform_worker(args):
    """a module whose (invalid) program was changed by transformations that need no visit: after every rejected call
    the module answers has_measurements / has_barriers as before the call and prints either what it printed before the
    call or the original program, nothing else (no partial output of the interrupted visit).  Which of the two is
    printed is left open on purpose: C17 says "prints the original program", which a rejected unroll() does literally
    (the transformations disappear from the printed text) and a rejected validate() does by leaving the module as the
    earlier calls made it; the two readings coincide when no transformation preceded the call (family (a))"""
    import logging
    logging.disable(logging.CRITICAL)
    import pyqasm
    src, pre, hist = args
    try:
        m = pyqasm.loads(src)
        for t in pre:
            getattr(m, t)()
    except Exception:
        return ("skip",)

    def snap():
        return (call(m, "dumps"), call(m, "has_measurements"), call(m, "has_barriers"))
    before = snap()
    original = call(pyqasm.loads(src), "dumps")
    literalised = False
    rejected = 0
    for k, op in enumerate(hist):
        got = call(m, op)
        if got[0] != "error":
            continue
        rejected += 1
        after = snap()
        if after != before and after != (original,) + before[1:]:
            if after[1:] == before[1:] and after[0][0] == "ok" and any(
                    ref[0] == "ok" and only_declared_sizes_differ(after[0][1], ref[1]) for ref in (before[0], original)):
                literalised = True
                continue
            return ("diff", k, op, after, before)
    if rejected == 0:
        return ("skip",)
    return ("literalised",) if literalised else ("ok",)


DECL_RE = re.compile(r"^\s*(qubit|bit)(\[[^\]]*\])?\s+(\w+);\s*$")
LITERALISED = "C17-declaration-size-literalised-by-rejected-visit"


def only_declared_sizes_differ(a, b):
    """the two printed programs are the same line for line except that register declarations
    (visitor._visit_quantum_register / _visit_classical_declaration rewrite the size of the input
    program's declaration in place) carry a literal size in one and the written size in the other"""
    la, lb = a.splitlines(), b.splitlines()
    if len(la) != len(lb):
        return False
    for x, y in zip(la, lb):
        if x == y:
            continue
        mx, my = DECL_RE.match(x), DECL_RE.match(y)
        if not (mx and my and mx.group(1) == my.group(1) and mx.group(3) == my.group(3)):
            return False
        if not (mx.group(2) and re.fullmatch(r"\[\d+\]", mx.group(2))):     # the module after the visit shows a literal
            return False
    return True


def _interleave_worker(args):
    """processing other modules (valid or not) before / in between never changes a module's outcomes"""
    import logging
    logging.disable(logging.CRITICAL)
    import pyqasm
    src, hist, others = args[:3]
    other_ops = args[3] if len(args) > 3 else ("validate", "unroll", "depth")

    try:
        pyqasm.loads(src)
    except Exception:
        return ("skip",)                 # the subject does not even parse: nothing to compare

    def run(with_others):
        m = pyqasm.loads(src)
        outs = []
        for k, op in enumerate(hist):
            if with_others:
                try:
                    o = pyqasm.loads(others[k % len(others)])
                except Exception:
                    outs.append(call(m, op))
                    continue
                for oop in other_ops:
                    try:
                        getattr(o, oop)()
                    except Exception:
                        pass
            outs.append(call(m, op))
        return outs
    a, b = run(False), run(True)
    if a != b:
        k = next(i for i, (x, y) in enumerate(zip(a, b)) if x != y)
        return ("diff", k, hist[k], b[k], a[k])
    return ("ok",)


NAME_POOL = ["pair", "al", "anc", "tmp"]


def name_clash_cases():
    """a module may use, as a classical register or not at all, a name that an earlier module of the same
    process used for an alias, a gate, a subroutine or a variable"""
    subjects, others = [], []
    for n in NAME_POOL:
        subjects += [H + "qubit[4] q;\nbit[2] %s;\nh %s[1];\n" % (n, n),          # gate on a classical register: rejected
                     H + "qubit[4] q;\nh %s[0];\n" % n,                              # undeclared: rejected
                     H + "qubit[4] q;\nbit[2] %s;\n%s[0] = measure q[1];\nh q[0];\n" % (n, n),   # fine
                     H + "qubit[4] q;\nrx(%s) q[0];\n" % n,                          # undeclared variable: rejected
                     H + "qubit[4] q;\n%s q[0];\n" % n]                              # undeclared gate: rejected
        others += [H + "qubit[4] q;\nlet %s = q[{1, 2}];\nh %s[0];\n" % (n, n),
                   H + "qubit[4] q;\nlet %s = q[1:3];\ncx %s[0], %s[1];\n" % (n, n, n),
                   H + "qubit[4] q;\ngate %s a { h a; }\n%s q[0];\n" % (n, n),
                   H + "qubit[4] q;\nconst float[64] %s = 0.5;\nrx(%s) q[0];\n" % (n, n),
                   H + "qubit[4] q;\ndef %s(qubit a) { h a; }\n%s(q[1]);\n" % (n, n),
                   # rejected in the middle of expanding a gate / running a subroutine / a block of that name
                   H + "qubit[4] q;\ngate %s a, b { h a; cx a, zz; }\n%s q[0], q[1];\n" % (n, n),
                   H + "qubit[4] q;\ngate inner a { rx(nope) a; }\ngate %s a { inner a; }\n%s q[0];\n" % (n, n),
                   H + "qubit[4] q;\ndef %s(qubit a) { h a; h q[0]; }\n%s(q[1]);\n" % (n, n)]
        subjects += [H + "qubit[4] q;\ngate %s a, b { h a; cx a, b; }\n%s q[0], q[1];\n%s q[1], q[2];\n" % (n, n, n),   # fine
                     H + "qubit[4] q;\ngate inner a { s a; }\ngate %s a { inner a; inv @ inner a; }\n%s q[0];\n" % (n, n),  # fine
                     H + "qubit[4] q;\ndef %s(qubit a) { h a; }\n%s(q[1]);\n%s(q[2]);\n" % (n, n, n)]                    # fine
    return subjects, others


def _retry_worker(args):
    """whenever a call is rejected, retrying it raises the same error again and every accessor that
    needs validation raises as well"""
    import logging
    logging.disable(logging.CRITICAL)
    import pyqasm
    src, hist = args
    try:
        m = pyqasm.loads(src)
    except Exception:
        return ("skip",)

    def do(op):
        if isinstance(op, tuple) and op[0] == "unroll_ext":
            try:
                m.unroll(external_gates=list(op[1]))
                return ("ok", None)
            except Exception as e:
                import re
                return ("error", type(e).__name__, re.sub(r"span=Span\([^)]*\)", "span", str(e))[:300])
        if isinstance(op, tuple):
            try:
                getattr(m, op[0])(in_place=True)
                return ("ok", None)
            except Exception as e:
                import re
                return ("error", type(e).__name__, re.sub(r"span=Span\([^)]*\)", "span", str(e))[:300])
        return call(m, op)
    for k, op in enumerate(hist):
        r = do(op)
        if r[0] == "error" and (op in ("validate", "unroll") or isinstance(op, tuple)):
            again = do(op)
            if again != r:
                return ("diff", k, op, "retry", again, r)
            for acc in ("unroll", "validate", "num_qubits", "depth"):
                a = call(m, acc)
                if a[0] != "error":
                    return ("diff", k, op, acc, a, r)
            return ("ok-failed",)
    return ("ok",)


def retry_cases(rnd, n):
    """histories in which a module that was fine becomes rejected: gates kept external, then a transformation
    makes the kept calls part of the program (their definitions are gone), then unroll()"""
    out = []
    base = [H + "qubit[3] q;\nbit[1] c;\ngate cg(a) x, y { rx(a) x; cx x, y; }\ncg(0.5) q[0], q[1];\nbarrier q;\nh q[2];\nc[0] = measure q[0];\n",
            H + "qubit[2] q;\ngate g1 x { h x; }\ngate g2 x, y { g1 x; cx x, y; }\ng2 q[0], q[1];\nbarrier q[0];\ng1 q[1];\n"]
    trans = ["remove_barriers", "remove_measurements", "remove_includes", "remove_idle_qubits", "reverse_qubit_order", "populate_idle_qubits"]
    for k in range(n):
        src = base[k % len(base)]
        ext = ["cg"] if "cg" in src else rnd.choice([["g1"], ["g2"], ["g1", "g2"]])
        hist = [rnd.choice(OPS) for _ in range(rnd.randint(0, 2))]
        hist += [("unroll_ext", tuple(ext))] + [(rnd.choice(trans),) for _ in range(rnd.randint(1, 2))] + ["unroll"]
        out.append((src, hist))
    return out


SEED_SCRIPT = r'''
import sys, json, logging
logging.disable(logging.CRITICAL)
sys.path.insert(0, %r)
import check_c17, pyqasm
cases = json.load(open(sys.argv[1]))
out = []
for src, hist in cases:
    try:
        m = pyqasm.loads(src)
    except Exception as e:
        out.append(["load-error", type(e).__name__]); continue
    out.append([list(map(str, check_c17.call(m, op))) for op in hist])
print(json.dumps(out, sort_keys=True))
'''


def run(tier, seed, replay):
    if replay:
        r = json.load(open(replay))
        if r.get("kind") == "history-after-transform":
            chk = common.Check(PROP, "quick", 0)
            res = _after_transform_worker((r["source"], tuple(r["transformations"]), r["calls"]))
            print("replay:", res)
            if res[0] in ("diff", "literalised"):
                chk.violation("replayed", r)
            return chk.finish()
        if r.get("kind") == "history" and isinstance(r.get("calls", [None])[0], str):
            chk = common.Check(PROP, "quick", 0)
            res = _history_worker((r["source"], r["calls"]))
            print("replay:", res)
            if res[0] == "diff":
                chk.violation("replayed", r)
            if res[0] == "literalised":
                if any(e["id"] == LITERALISED and e["status"] == "known" for e in common.load_known(PROP)):
                    chk.known(LITERALISED)
                else:
                    chk.violation("replayed", r)
            return chk.finish()
        return modcheck.replay_cmd(PROP, replay)
    chk = common.Check(PROP, tier, seed)
    known = common.load_known(PROP)
    res = common.build(["Module/ModuleSpec.vo", "Props/C17.vo"], fresh=["Props/C17.v"])
    closed, axioms = common.parse_assumptions(res.log)
    proof_ok = res.ok and not common.axioms_ok(axioms) and not common.hygiene()
    common.run_script_replays(chk, known)
    rnd = random.Random(seed * 101 + 3)
    # ---- (a) rejected programs leave no trace
    bad_progs = [src for cls, ctx, src in gen.error_cases()]
    rnd.shuffle(bad_progs)
    bad_progs = LATE_FAILURES + bad_progs[: (120 if tier == "quick" else 1200)]
    jobs = []
    for src in bad_progs:
        for _ in range(2 if tier == "quick" else 4):
            jobs.append((src, [rnd.choice(OPS) for _ in range(rnd.randint(2, 7))]))
    for src in LATE_FAILURES:
        # what the module prints and answers after each way of being rejected, once and repeatedly
        for hist in (["unroll", "dumps"], ["validate", "dumps", "unroll", "dumps"], ["unroll", "unroll", "num_qubits", "dumps", "depth", "dumps"],
                     ["depth", "dumps", "has_measurements", "validate", "dumps"]):
            jobs.append((src, hist))
    for e in known:
        rp = e.get("replay", {})
        if rp.get("kind") == "history" and rp.get("calls") and isinstance(rp["calls"][0], str):
            jobs.insert(0, (rp["source"], rp["calls"]))
    with multiprocessing.Pool(12) as pool:
        out = pool.map(_history_worker, jobs, chunksize=8)
    nbad = 0
    n_hist = sum(1 for o in out if o[0] != "skip")
    for (src, hist), o in zip(jobs, out):
        if o[0] == "literalised":
            e = next((e for e in known if e["id"] == LITERALISED and e["status"] == "known"), None)
            if e is not None:
                chk.known("%s: %s" % (e["id"], e["what"]))
            elif nbad < 5:
                nbad += 1
                chk.violation("trace_%d" % nbad, {"kind": "history", "source": src, "calls": hist,
                                                  "what": "after a rejected visit dumps() prints register declarations with literal sizes instead of the original program"})
        if o[0] == "diff" and nbad < 5:
            nbad += 1
            chk.violation("trace_%d" % nbad, {"kind": "history", "source": src, "calls": hist[: o[1] + 1],
                                              "what": "after earlier calls on a program that unroll() rejects, %s behaves differently from the same call on a module never processed" % o[2],
                                              "got": list(map(str, o[3])), "on_a_fresh_module": list(map(str, o[4]))})
    # ---- (a') ... nor does it undo what earlier visit-free transformations did to the module
    tsrc = [H + "qubit[2] q;\nbit[2] c;\nbarrier q;\nh q[0];\nc[0] = measure q[0];\nbarrier q[1];\nh q[5];\n",
            H + "qubit[2] q;\nbit[2] c;\nfor int i in [0:1] { barrier q[i]; c[i] = measure q[i]; }\nrx(nope) q[0];\n",
            "OPENQASM 2.0;\ninclude \"qelib1.inc\";\nqreg q[2];\ncreg c[2];\nbarrier q;\nmeasure q -> c;\nh q[3];\n"] + LATE_FAILURES[:6] + bad_progs[10:40]
    tjobs = []
    for k, src in enumerate(tsrc):
        for pre in ((VISIT_FREE[k % 3],), ("remove_includes",), VISIT_FREE, ("remove_measurements", "remove_barriers")):
            tjobs.append((src, pre, ["validate", "dumps", "unroll", "num_qubits"]))
            tjobs.append((src, pre, [rnd.choice(OPS) for _ in range(rnd.randint(2, 5))]))
    with multiprocessing.Pool(12) as pool:
        tout = pool.map(_after_transform_worker, tjobs, chunksize=8)
    lit_known = next((e for e in known if e["id"] == LITERALISED and e["status"] == "known"), None)
    for (src, pre, hist), o in zip(tjobs, tout):
        if o[0] == "literalised" and lit_known is not None:
            chk.known("%s: %s" % (lit_known["id"], lit_known["what"]))
        elif o[0] in ("diff", "literalised") and nbad < 7:
            nbad += 1
            chk.violation("undone_%d" % nbad, {"kind": "history-after-transform", "source": src, "transformations": list(pre), "calls": hist if o[0] != "diff" else hist[: o[1] + 1],
                                               "what": "after a rejected call the module prints neither what it printed before the call nor the original program, or answers has_measurements / has_barriers differently" if o[0] == "diff" else
                                                       "after a rejected visit dumps() prints register declarations with literal sizes",
                                               "after_the_rejected_call": list(map(str, o[3])) if o[0] == "diff" else None,
                                               "before_it": list(map(str, o[4])) if o[0] == "diff" else None})
    # ---- (b) modules never influence each other (same process, interleaved)
    progs = modcheck.programs(rnd, 30 if tier == "quick" else 150, dict(alias=4, call=3, custom=3))
    others = bad_progs[:10] + progs[:10]
    ijobs = []
    for k in range(100 if tier == "quick" else 1500):
        src = rnd.choice(progs + bad_progs[:20])
        ijobs.append((src, [rnd.choice(OPS) for _ in range(rnd.randint(2, 6))], rnd.sample(others, 4)))
    with multiprocessing.Pool(12) as pool:
        iout = pool.map(_interleave_worker, ijobs, chunksize=8)
    for (src, hist, oth), o in zip(ijobs, iout):
        if o[0] == "diff" and nbad < 8:
            nbad += 1
            chk.violation("interference_%d" % nbad, {"kind": "interleaving", "source": src, "calls": hist, "other_programs": oth,
                                                     "what": "outcome of %s changes when other modules are processed in between" % o[2],
                                                     "alone": list(map(str, o[4])), "interleaved": list(map(str, o[3]))})
    # ... not even a module loaded from the SAME text (a second load shares nothing with the first): the other module
    # is validated, unrolled and transformed in place between the subject's calls
    same_ops = ("validate", "remove_idle_qubits", "dumps_", "reverse_qubit_order", "remove_measurements", "populate_idle_qubits", "remove_barriers", "unroll")
    sjobs = []
    for src in modcheck.FIXED_PROGRAMS + progs[:6]:
        for hist in (["dumps", "validate", "dumps", "unroll", "dumps", "depth"], ["unroll", "dumps", "num_qubits", "depth"], ["num_qubits", "dumps", "has_measurements"],
                     [rnd.choice(OPS) for _ in range(4)]):
            sjobs.append((src, hist, [src], tuple(o for o in same_ops if o != "dumps_")))
    with multiprocessing.Pool(12) as pool:
        sout = pool.map(_interleave_worker, sjobs, chunksize=4)
    for (src, hist, oth, _), o in zip(sjobs, sout):
        if o[0] == "diff" and nbad < 9:
            nbad += 1
            chk.violation("same_text_%d" % nbad, {"kind": "interleaving", "source": src, "calls": hist, "other_programs": oth,
                                                  "what": "outcome of %s changes when a second module loaded from the same text is validated, unrolled and transformed in between" % o[2],
                                                  "alone": list(map(str, o[4])), "interleaved": list(map(str, o[3]))})
    subjects, clash_others = name_clash_cases()
    cjobs = [(sj, [rnd.choice(["validate", "unroll", "depth", "num_qubits", "dumps"]) for _ in range(3)], rnd.sample(clash_others, 4)) for sj in subjects for _ in range(2)]
    with multiprocessing.Pool(12) as pool:
        cout = pool.map(_interleave_worker, cjobs, chunksize=8)
    for (src, hist, oth), o in zip(cjobs, cout):
        if o[0] == "diff" and nbad < 10:
            nbad += 1
            chk.violation("name_clash_%d" % nbad, {"kind": "interleaving", "source": src, "calls": hist, "other_programs": oth,
                                                   "what": "outcome of %s changes when modules using the same names were processed in between" % o[2],
                                                   "alone": list(map(str, o[4])), "interleaved": list(map(str, o[3]))})
    # ---- (b') a module that becomes rejected in the middle of a history: retries raise the same error
    rjobs = retry_cases(rnd, 60 if tier == "quick" else 600)
    with multiprocessing.Pool(12) as pool:
        rout = pool.map(_retry_worker, rjobs, chunksize=8)
    for (src, hist), o in zip(rjobs, rout):
        if o[0] == "diff" and nbad < 12:
            nbad += 1
            chk.violation("retry_%d" % nbad, {"kind": "history-ext", "source": src, "calls": [list(h) if isinstance(h, tuple) else h for h in hist[: o[1] + 1]],
                                              "what": "after %s was rejected, %s does not raise the same error again" % (o[2], o[3]),
                                              "got": list(map(str, o[4])), "the_rejection": list(map(str, o[5]))})
    # ---- (c) identical across fresh processes and hash seeds
    scases = [(j[0], j[1]) for j in ijobs[: (40 if tier == "quick" else 300)]] + jobs[:20]
    d = common.run_dir()
    cf = os.path.join(d, "seedcases.json")
    json.dump(scases, open(cf, "w"))
    sf = os.path.join(d, "seedscript.py")
    open(sf, "w").write(SEED_SCRIPT % os.path.dirname(os.path.abspath(__file__)))
    digests = {}
    outputs = {}
    procs = []
    for hs in ("0", "1", "2", "random", "12345"):
        env = common.pyqasm_env()
        env["PYTHONHASHSEED"] = hs
        procs.append((hs, subprocess.Popen([common.PY, "-W", "ignore", sf, cf], stdout=subprocess.PIPE, stderr=subprocess.PIPE, text=True, env=env)))
    for hs, p in procs:
        so, se = p.communicate()
        outputs[hs] = so
        digests[hs] = hashlib.sha256(so.encode()).hexdigest()[:16]
    if len(set(digests.values())) != 1 or not outputs["0"].strip():
        ref = json.loads(outputs["0"]) if outputs["0"].strip() else None
        detail = None
        for hs, so in outputs.items():
            if ref is not None and so != outputs["0"] and so.strip():
                cur = json.loads(so)
                k = next((i for i, (x, y) in enumerate(zip(ref, cur)) if x != y), None)
                if k is not None:
                    detail = {"hash_seed": hs, "source": scases[k][0], "calls": scases[k][1], "with_seed_0": ref[k], "with_this_seed": cur[k]}
                    break
        chk.violation("nondeterminism", {"kind": "determinism", "what": "outputs differ between fresh processes / hash seeds", "digests": digests, "first_difference": detail},
                      no_input=detail is None)
    # ---- (d) tie of the machine's failure-atomicity theorems: histories on rejected programs vs the machine
    mcases = []
    for src, hist in jobs[:150 if tier == "quick" else 1500]:
        h = [(0, op) for op in hist if op != "dumps"]
        if h:
            mcases.append((src, h))
    codes, real, errs = modcorr.evaluate(mcases, tag="c17")
    for (src, h), c, r in zip(mcases, codes, real):
        if c not in (0, None, 999) and nbad < 10:
            nbad += 1
            chk.violation("machine_%d" % nbad, {"kind": "history", "source": src, "calls": [list(o) for o in h[:c]],
                                                "what": "outcome class differs from the abstract machine at " + modcorr.op_text(h[c - 1]),
                                                "implementation_output": str(r["outs"][c - 1][1])[:300]})
    if not proof_ok and not chk.violations:
        chk.violation("proof_broken", {"kind": "proof", "broken": res.failed_target, "theorem_file": "coq/Props/C17.v", "log_tail": res.log[-1200:]}, no_input=True)
    nthm = langcheck.count_theorems(PROP)
    chk.coverage = {
        "checker_cmd": "make -C coq Props/C17.vo Module/ModuleSpec.vo (coqc 8.16.1)",
        "trusted_base": ["Coq 8.16.1 kernel + vm_compute", "harness/check_c17.py, harness/modcorr.py", "CPython process and hashing behaviour is observed, not modelled"],
        "source_fingerprint": common.src_fingerprint(),
        "evaluations": len(jobs) + len(ijobs) + 5 * len(scases) + len(mcases),
        "distinct_nontrivial": len(set((s, tuple(h)) for s, h in jobs)) + len(set((s, tuple(h)) for s, h, _ in ijobs)),
        "rule": "rejected-program histories (each call compared with the same call on a never-processed module), interleavings with other modules in one process, "
                "the same histories in five fresh processes with different hash seeds, and rejected-program histories against the abstract machine; non-trivial: every history has >= 2 calls",
        "rejected_program_histories": n_hist, "rejected_calls_after_visit_free_transformations": sum(1 for o in tout if o[0] != "skip"), "interleavings": len(ijobs) + len(cjobs) + len(sjobs), "became_rejected_mid_history": sum(1 for o in rout if o[0] == "ok-failed"), "hash_seeds": list(digests), "seed_digest": sorted(set(digests.values())),
        "machine_histories_agree": sum(1 for c in codes if c == 0),
        "traces_validated_against_impl": sum(1 for o in out if o[0] == "ok") + sum(1 for o in iout if o[0] == "ok"),
        "samples": [{"source": jobs[0][0], "calls": jobs[0][1]}, {"source": ijobs[0][0], "calls": ijobs[0][1]}],
    }
    if proof_ok:
        chk.coverage["obligations"] = nthm
        chk.coverage["discharged"] = nthm
    chk.assumptions = ["hash-seed and fresh-process independence are facts about CPython the model cannot exhibit: covered by the seed sweep only", "threads are outside the property"]
    return chk.finish()
