#!/usr/bin/env python3
"""usage: try_src.py <file-with-programs-separated-by-lines-of-'----'>
Runs each program through pyqasm and the Coq model and prints verdicts and both outputs (debug aid)."""
import os, sys
sys.path.insert(0, os.path.join(os.path.dirname(os.path.abspath(__file__)), "..", "harness"))
os.environ.setdefault("PYTHONHASHSEED", "0")
import common, langcheck, langcorr  # noqa
srcs = [s.strip("\n") + "\n" for s in open(sys.argv[1]).read().split("\n----\n") if s.strip()]
cases = [dict(src=("" if s.startswith("OPENQASM") else 'OPENQASM 3.0;\ninclude "stdgates.inc";\n') + s, family="try") for s in srcs]
run = langcheck.LangRun(cases, tag="try")
mo = langcheck.model_outputs(run.outcomes, [i for i in range(len(cases)) if "prog_term" in run.outcomes[i]])
for i, c in enumerate(cases):
    o = run.outcomes[i]
    print("=== case %d verdict=%s spec=%s" % (i, langcorr.VERDICTS.get(run.verdicts[i], run.verdicts[i]), run.spec[i]))
    print(c["src"].split("\n", 2)[2] if "-v" in sys.argv else "", end="")
    print(" real :", o.get("load"), o.get("validate"), o.get("unroll"), o.get("error", ""), (o.get("ops") or [])[:8])
    m = mo.get(i, ("noparse", ""))
    print(" model:", m[0], (m[1] if m[0] != "ok" else m[1][:8]))
if run.errors:
    print("errors:", run.errors[:3])
