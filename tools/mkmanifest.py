#!/venv/bin/python
"""Regenerates MANIFEST.json from the per-property table below (kept valid at all times)."""
import json
import os

ROOT = os.path.dirname(os.path.dirname(os.path.abspath(__file__)))
props = [json.loads(l) for l in open(os.path.join(ROOT, "properties.jsonl"))]

LANG_NOTE = ("Trusted: Coq kernel + vm_compute; harness/ir.py (openqasm3 AST -> Gallina), harness/langcorr.py, "
             "translator/maps2coq.py (library lowering); openqasm3 parser; CPython float = IEEE binary64. The theorems are "
             "about the hand-written model coq/Lang/Unroll.v of visitor.py/expressions.py/transformer.py/validator.py/"
             "subroutines.py; the tie to /repo is the correspondence (model and implementation run on the same programs, "
             "outcomes, emitted statements, counts and depth compared exactly). Arrays are not modelled (cases counted as "
             "unmodelled). ")

CLAIMED = {
    "C05": dict(
        engine="coq-gates",
        technique="Coq proof by reflection (vm_compute of a verified decision procedure) over a model regenerated from maps.py",
        text="For every gate name in pyqasm's operation tables that has a defining unitary in spec/gates_spec.py (all but xx_plus_yy, xy, ms) the theorem C05_partial states that the emitted basis-gate circuit equals the defining unitary up to a unit scalar for ALL real parameter vectors; proved in Coq by a polynomial-identity argument over Z[zeta_64][u_i^+-1] with a soundness theorem into the reals. The model (GatesGen.v) is regenerated from /repo's maps.py by a fail-closed translator on every run. A numeric oracle on the real unroll() output searches for a failing input when the proof breaks and watches the names the theorem excludes.",
        ref="DESIGN.md §3.2, §4.1, §6/C05",
        note="Trusted: Coq kernel + vm_compute; Reals axioms sig_forall_dec, sig_not_dec, functional_extensionality_dep (stdlib); translator/maps2coq.py; spec/gates_spec.py and coq/Gates/Basis.v (specification); binary64 angles idealised as reals; the k-qubit identity is not lifted to an arbitrary position in an n-qubit register. ms is numeric-only. xx_plus_yy/xy/ms are known findings."),
    "C02": dict(
        engine="coq-lang",
        technique="Coq theorems on the visitor model's operand resolution + exact correspondence with pyqasm on enumerated index/broadcast/alias/subroutine shapes",
        text="Theorems (all sizes, bounds, steps): a slice selects exactly the Python range in order and stays inside the register once its ends are validated; whole registers resolve to 0..size-1; out-of-range indices are rejected; broadcasting splits into consecutive groups of the gate's arity losing nothing; an operation with a repeated operand is never accepted. They are about the model; the model is tied to the code by running both on every (size<=3/5, index form, bounds) combination, broadcast shapes, every subroutine-argument shape and random basis-gate programs with aliases/loops/subroutines, comparing emitted statements exactly. A disagreement is reported as a C02 violation when the per-bit operation sequences differ.",
        ref="DESIGN.md §6/C02",
        note=LANG_NOTE + "The full refinement to a reference semantics (per-bit sequence equality as a theorem) is not proved; that clause rests on the correspondence."),
    "C04": dict(
        engine="coq-lang",
        technique="Coq theorems (one per error class) on the visitor model + exact correspondence with pyqasm over the (error class x syntactic context) product",
        text="Twenty theorems state, for the model of the visitor, that each catalogue situation (undeclared / uninitialised / redeclared / keyword names, assignment to constants, out-of-range and duplicated operands, values outside the declared range, duplicate gate/subroutine/include definitions, unsupported statements, undeclared subroutine and argument counts, measurement without target, the OpenQASM 2 whitelist) makes the visit fail with ValidationError and that statement sequences propagate the failure. The model is tied to the code by running both on 111 error classes x 13 syntactic contexts (top level, if/else arms, first loop iteration, switch case/default, subroutine body and blocks inside it, measurement-conditioned block), one injected error each; independently of the model, every such program must be rejected with ValidationError by validate() and by unroll().",
        ref="DESIGN.md §6/C04, Appendix A",
        note=LANG_NOTE + "The theorems are per check site; the global statement 'no program containing a catalogue error is accepted' is established on the enumerated product, not as one theorem."),
    "C08": dict(
        engine="coq-lang",
        technique="Coq theorems on the model's scope machinery and loop ranges + exact correspondence with pyqasm on enumerated ranges, scope shapes and call sequences",
        text="Theorems: for-loop ranges are the inclusive arithmetic progression for either step sign, in order; leaving a block restores the scope/context stacks exactly; a declaration inside a block dies with it and leaves enclosing scopes untouched; the shadowing declaration is what is read inside; a block reads enclosing variables; a subroutine body cannot see the caller's non-constant variables but sees global constants. Correspondence: all ranges |a|,|b|<=3 x steps, all placements of declare/read/write over 19 scope shapes, all 2-3 call sequences over the same gate/subroutine definitions, random control-flow programs. An independent oracle recomputes loop iteration values.",
        ref="DESIGN.md §6/C08",
        note=LANG_NOTE + "Known deviations of the unchanged code that the model reproduces (gate bodies resolve free names in the caller's innermost scope; global constants invisible in blocks inside subroutines; both arms of a measurement-conditioned if share a scope) are listed in DESIGN.md §8."),
    "C09": dict(
        engine="coq-lang",
        technique="Coq theorems (depth recurrence = longest chain, for every event list; the model's four depth updates are that recurrence) + correspondence of depth() with the model and with the critical path of the reference trace",
        text="Theorems, for every event list of any length: no chain of operations pairwise-consecutively sharing a qubit or bit is longer than the computed depth, and some chain attains it (per resource and for the circuit maximum); the visitor model's updates for a library-gate group, a barrier statement, a reset and a measurement pair are exactly that recurrence step on the event they stand for (measurement synchronises qubit and target bit). Tie: the model's depth and real depth() are compared exactly on random circuits (basis and library gates, broadcast, custom gates, pow, loops, subroutines, measurement-conditioned blocks); independently the Gallina specification computes the critical path of the reference trace (one step per source-level library-gate application, measurement, reset, barrier statement) and must equal depth(). History independence is exercised by random interleavings of validate/unroll/depth/queries before depth().",
        ref="DESIGN.md §3.4, §6/C09",
        note=LANG_NOTE + "The statement 'the event stream of an arbitrary program is one event per source-level operation' is by construction of the model/specification and is tied to the code by the correspondence, not proved as a refinement theorem. History independence across transformations is the module layer's (C16) business; here only non-transforming histories are explored."),
}

ORDER = ["C%02d" % i for i in range(1, 21)]
checks = []
for pid in ORDER:
    if pid not in CLAIMED:
        continue
    c = CLAIMED[pid]
    checks.append({
        "property_id": pid,
        "quick_cmd": "./check %s --tier quick" % pid,
        "thorough_cmd": "./check %s --tier thorough" % pid,
        "evidence_file": "evidence/%s.json" % pid,
        "replay_cmd_template": "./check %s --replay {path}" % pid,
        "engine": c["engine"],
        "technique": c["technique"],
        "level_claimed": {"category": "proof", "text": c["text"], "design_ref": c["ref"]},
        "level_note": c["note"],
    })
m = {
    "version": 1,
    "setup_cmd": "./setup.sh",
    "hooks": {"guard": "QBRAID_PYQASM_VERIF",
              "enable": "export QBRAID_PYQASM_VERIF=1 (no hook commit exists: every observation is through the public API)",
              "baseline_off_cmd": "cd /repo && /venv/bin/python -m pytest -ra -q -p no:cacheprovider --timeout=900 --continue-on-collection-errors",
              "source_commits": [], "add_only": True},
    "engines": [
        {"name": "coq-gates", "path": "coq/Gates", "serves_properties": ["C05", "C06"],
         "kind_free_text": "Coq 8.16.1: symbolic cyclotomic-Laurent ring, reflection-based decision procedure with soundness theorem into R; model regenerated from maps.py by translator/maps2coq.py"},
        {"name": "coq-lang", "path": "coq/Lang", "serves_properties": [p for p in ORDER if p in CLAIMED and CLAIMED[p]["engine"] == "coq-lang"],
         "kind_free_text": "Coq 8.16.1: executable model of the visitor (Unroll.v) with theorems; correspondence by generated case files evaluated with vm_compute against real pyqasm"},
    ],
    "checks": checks,
    "not_applicable": [{"property_id": p["id"], "reason": "check not built yet in this round; will be claimed once its model, theorems and correspondence exist (no technique switch intended)"}
                       for p in props if p["id"] not in CLAIMED],
    "notes": "Technique family: machine-checked proof in Coq 8.16.1. See DESIGN.md.",
}
json.dump(m, open(os.path.join(ROOT, "MANIFEST.json"), "w"), indent=1)
print("claimed:", [c["property_id"] for c in checks])
