#!/venv/bin/python
"""Regenerates MANIFEST.json from the per-property table below (kept valid at all times)."""
import json
import os

ROOT = os.path.dirname(os.path.dirname(os.path.abspath(__file__)))
props = [json.loads(l) for l in open(os.path.join(ROOT, "properties.jsonl"))]

LANG_NOTE = ("Trusted: Coq kernel + vm_compute; harness/ir.py (openqasm3 AST -> Gallina), harness/langcorr.py, "
             "translator/maps2coq.py (library lowering); openqasm3 parser; CPython float = IEEE binary64. The theorems are "
             "about the hand-written model coq/Lang/Unroll.v of visitor.py/expressions.py/transformer.py/validator.py/"
             "subroutines.py; the tie to /repo is the correspondence (model and implementation run on the same programs, "
             "outcomes, emitted statements, counts and depth compared exactly). Arrays are not modelled (cases counted as "
             "unmodelled). ")

MOD_NOTE = ("Trusted: Coq kernel + vm_compute; harness/ir.py, harness/modcorr.py, harness/modcheck.py; the openqasm3 parser/printer (dumps is compared "
            "after re-loading and unrolling, never as text); coq/Lang/Unroll.v as the meaning of 'unroll' inside the machine (tied to the code by the language-layer checks). "
            "The abstract machine coq/Module/ModuleSpec.v with the pure transformation functions of coq/Module/Transforms.v IS the specification (DESIGN appendix B); the theorems are about it. "
            "base.py itself is tied to the machine by the correspondence: every output of every call of generated call histories (transformations with in_place True/False, copy, "
            "validate/unroll/depth, counts, flags, dumps) on real modules is compared with the machine's, inside the stated envelope (no qubit-restricted gphase / empty if-block in the "
            "unrolled program -- both known C03 findings --, at least one top-level gate, has_* only where the textual and inlined readings of 'contains' agree). "
            "A heap-level model of base.py (object sharing between statement lists) is not part of the proof; sharing defects are visible only through the histories. ")

CLAIMED = {
    "C05": dict(
        engine="coq-gates",
        technique="Coq proof by reflection (vm_compute of a verified decision procedure) over a model regenerated from maps.py",
        text="For every gate name in pyqasm's operation tables that has a defining unitary in spec/gates_spec.py (all but xx_plus_yy, xy, ms) the theorem C05_partial states that the emitted basis-gate circuit equals the defining unitary up to a unit scalar for ALL real parameter vectors; proved in Coq by a polynomial-identity argument over Z[zeta_64][u_i^+-1] with a soundness theorem into the reals. The model (GatesGen.v) is regenerated from /repo's maps.py by a fail-closed translator on every run. A numeric oracle on the real unroll() output searches for a failing input when the proof breaks and watches the names the theorem excludes.",
        ref="DESIGN.md §3.2, §4.1, §6/C05",
        note="Trusted: Coq kernel + vm_compute; Reals axioms sig_forall_dec, sig_not_dec, functional_extensionality_dep (stdlib); translator/maps2coq.py; spec/gates_spec.py and coq/Gates/Basis.v (specification); binary64 angles idealised as reals; the k-qubit identity is not lifted to an arbitrary position in an n-qubit register. ms is numeric-only. xx_plus_yy/xy/ms are known findings."),
    "C06": dict(engine="coq-gates",
        technique="Coq proof by reflection of the library inverse table (regenerated from maps.py) + theorems on the model's modifier collapse for every stack + group-theoretic theorem for nested custom gates; correspondence and numeric oracles on real unroll() output",
        text="Theorems: (1) for every gate name the inverse table accepts (45+ names), the circuit emitted for inv @ g(params) undoes the circuit emitted for g(params) up to a global phase for ALL real parameters (decision procedure over the cyclotomic-Laurent ring with soundness into R, on GatesGen.v regenerated from maps.py each run); the other names are rejected. (2) For every modifier stack of inv and integer pow of any length the model's _collapse_gate_modifiers returns (product of |k_i|, parity of inversions); it is invariant under permutation of the stack, multiplicative over concatenation, pow(0) gives 0 repetitions, pow(-k) equals inv with pow(k); ctrl/negctrl are rejected. (3) Over an arbitrary group of circuit meanings: the expansion of inv @ c for a call tree of custom gates nested to any depth (body reversed, inv pushed to the members) denotes the inverse of c, given (1) for its library leaves; pow(n) denotes the n-th power; pow(-n) the inverse of the n-th power. Tie: translator for (1); model vs real unroll() on all stacks up to length 3 over representative gates, every library name under five stacks, random stacks over nested custom gates; independent numeric oracles on the real output (G; inv @ G = identity, pow(k) = k copies, pow(-k) = k inverse copies, permuted stacks agree).",
        ref="DESIGN.md §6/C06",
        note="Trusted: Coq kernel + vm_compute; Reals axioms sig_forall_dec, sig_not_dec, functional_extensionality_dep (stdlib) for (1); translator/maps2coq.py; spec/gates_spec.py, coq/Gates/Basis.v; binary64 angles idealised as reals; " + LANG_NOTE + "Non-integer pow is outside the theorems (the model raises an internal error as the code does)."),
    "C07": dict(engine="coq-lang",
        technique="Coq theorems: the operator table regenerated from maps.OPERATOR_MAP computes the specified OpenQASM value for every operator and all operands; stores convert as specified for all widths; + exact correspondence on typed expression trees and boundary literals",
        text="Theorems: for every binary operator of OPERATOR_MAP (re-translated from maps.py on each run) and all operand values, whenever the OpenQASM specification (Spec.spec_binop: arithmetic on mathematical integers / binary64 with bools as 0/1, comparisons and && || ! yielding bool, bitwise and shifts on integers) assigns a value, the model's Python-semantics operator yields the same number; unary table; uint[n] stores are z mod 2^n within [0,2^n), int[n] stores accept exactly [-2^(n-1), 2^(n-1)-1] and otherwise raise ValidationError, bool stores truthiness, for every width n>=1; the model's conversion refines the specification's store for every declared type; compound assignment uses the operator of its name. Tie: model vs real pyqasm on every (width x boundary literal) declaration, every operator on a grid of literals, unary operators, float->int stores, and random typed expression trees observed through gate angles, register indices, loop bounds, branch decisions and compound assignments; the reference semantics is evaluated on the same programs as an oracle.",
        ref="DESIGN.md §6/C07",
        note=LANG_NOTE + "Outside the theorems: int/int '/', % and >> of negatives (the property's own exclusions: specification silent), float %, ints beyond 2^53 converted to float, array elements and slices (not modelled: a change confined to analyzer.py array indexing is not detected, see DESIGN §10). ~ on a uint[n] identifier is a known finding."),
    "C18": dict(engine="coq-lang",
        technique="Coq theorems on the model's external-gate path (calls not named in E are treated as by plain unroll; kept calls have the stated shape; the call is still validated) + group-level meaning of a kept inverse + correspondence over all subsets E and a substitution oracle on real output",
        text="Theorems (visitor model): a gate call whose name is not in E is processed exactly as with E empty; every statement a kept call emits is a call of the same gate with literal parameters, resolved single qubits per broadcast group and `inv @` iff the collapsed inverse flag is set; if the plain expansion of the call fails (custom or library) the kept call fails with the same error; over any group of circuit meanings a kept `inv @ g` denotes what plain unroll() expands it to. Tie: model vs real unroll(external_gates=E) for every subset E of the gate names of three structured programs and random programs with random E (modifiers x broadcast x nesting x subroutines); independent oracle on the real output: putting the gate definitions back and unrolling the kept program gives the plain unroll() of the source, and E never changes acceptance.",
        ref="DESIGN.md §6/C18", note=LANG_NOTE + "The global statement 'unroll(E) p = unroll p when no reachable call names a gate in E' is not proved as one theorem (it needs the full interpreter induction); it rests on the per-call theorem and the correspondence. Kept programs that contain a qubit-restricted gphase or an empty if-block are not re-loaded by the substitution oracle (C03 known findings)."),
    "C03": dict(engine="coq-lang",
        technique="Coq theorem by induction over the whole visitor model (every statement unroll() emits is flat, for every program, fuel and state) + re-load / re-validate / fixpoint clauses checked on real output",
        text="Theorem (unroll_flat, with visit_flat for every fuel and every intermediate visit and subroutine call): for every OpenQASM 2 or 3 program, with or without external gates, every statement of the model's unroll output is an include, a register declaration with literal size, a gate call without modifiers (or the single inv of a kept external gate) with literal parameters on literally indexed single qubits, a single-bit measurement, a reset, a single-qubit barrier, a gphase with literal angle, or a conditional on reg[i]==literal / reg==literal whose blocks are flat; proved by induction over the interpreter (40 visitor functions, the expression evaluator, subroutine calls, the fuel knot). Tie: model vs real unroll() on random full-feature programs, every library gate, expressions used as parameters; on the real output the harness checks flatness again, dumps()->loads() parses to the same statements, validate() accepts, and unrolling again changes neither statements nor text.",
        ref="DESIGN.md §6/C03",
        note=LANG_NOTE + "gphase operands are not constrained by the flatness predicate (inside gate bodies they are literal, lemma gphase_operands_literal). The parse-back, re-validate and fixpoint clauses involve the third-party openqasm3 printer/parser and are established on explored programs only (differential testing, labelled so). Three known findings (qubit-restricted gphase, empty if-block, xx_plus_yy emitting sxdg) are pinned by the repository's tests and replayed on every run."),
    "C19": dict(engine="coq-lang",
        technique="Coq theorems on the OpenQASM 2 layer (whitelist rejection, identical visit once whitelisted, line-level model of the declaration rewrite, to_qasm3 keeps every statement) + correspondence and print/re-load/convert oracles on real version-2 modules",
        text="Theorems: a program with a top-level statement outside the OpenQASM 2 subset is rejected with ValidationError; a whitelisted version-2 program is visited exactly like a version-3 program (so it inherits every unrolling theorem); the declaration rewrite turns every qubit[n] x; / bit[n] x; line into qreg x[n]; / creg x[n]; and leaves every other line, the order and the line count untouched, is idempotent and leaves no version-3 declaration; to_qasm3 keeps every statement, only renaming the qelib1 include, and stays inside the subset. Tie: the visitor model vs real Qasm2Module on random version-2 programs (qelib1 gates, custom gates, measure ->, reset, barrier, if, broadcast, register names containing bit/qubit/reg/digits/underscores); on the real output: header 2.0, no qubit/bit declaration or measurement assignment printed, the text loads again as a version-2 module with the same circuit, to_qasm3(as_str=True/False) unrolls to the same circuit, the converted module is independent of the version-2 module, statements outside the subset are rejected.",
        ref="DESIGN.md §6/C19",
        note=LANG_NOTE + "Python's re and the openqasm3 printer are not modelled: the rewrite is modelled on lines already classified as declarations, and that the regular expressions implement that classification is established by the differential oracle on generated names only. 'to_qasm3 has the same unrolled circuit' is not a theorem (it needs a simulation modulo the include name); it is checked on every generated program. Known finding: gphase in unrolled version-2 output."),
    "C20": dict(engine="coq-text",
        technique="Coq theorem: the CLI's counting/skip/tag bookkeeping computes the set-theoretic verdict for every tree, argument list and skip list + process-level correspondence on materialised trees",
        text="Theorems for every list of arguments (files and directories with arbitrary contents) and every --skip list: the exit status is non-zero exactly when some examined file (a .qasm file given directly or found under a given directory, not skipped, not ignore-tagged) fails loads()+validate(); the named files are exactly the failing examined files in discovery order; the 'nothing to check' shortcut can never hide a failure (every failing file is counted and not skipped); the pre-fix counting is refuted by a one-file tree. Tie: trees with nested, hidden and oddly named directories and files (.qasm.bak, upper-case extension, glob and markup characters, spaces), every content kind (valid, invalid, unparsable, tag before/after the header, version 2), files given twice and under a given directory, skips spelled as discovered / differently / unrelated, run as real `python -m pyqasm.cli.main validate` processes; exit status and named files compared with the model evaluated by coqc.",
        ref="DESIGN.md §6/C20",
        note="Trusted: Coq kernel + vm_compute; harness/check_c20.py (materialises trees under ${VERIF_SCRATCH:-/tmp}/verif-run-c20-*, removed at exit; reproduces os.walk's path strings; parses stdout); typer/rich process wiring; the per-file ground truth is loads()+validate() on the current tree. os.walk order, symlinks and encodings are outside the property."),
    "C17": dict(engine="coq-module",
        technique="Coq theorems on the abstract machine (a rejected call leaves every module as it was and fails again the same way; modules do not influence each other; run is a function) + differential histories on real modules: rejected programs vs never-processed modules, interleavings, hash seeds / fresh processes",
        text="Theorems: if a call on module i is rejected the world is unchanged and the same call is rejected again with the same error; a call on module i never changes module j; the machine's run is a function of the program and the call sequence; answers depend on the program only. Tie and search: (a) on programs unroll() rejects (every catalogue error in every context, errors reachable only in a later loop iteration) every call of a random history -- validate, unroll, counts, depth, dumps, flags -- must return or raise exactly what it does on a module never processed (same exception class and message, dumps printing the original); (b) modules that become rejected in the middle of a history (kept external gates whose definitions a transformation drops): retries and accessors raise the same error; (c) outcomes of a module are unchanged when other modules, valid or not and using the same names for aliases/gates/subroutines/variables, are processed in between; (d) the same histories give byte-identical outputs in five fresh processes with hash seeds 0, 1, 2, 12345 and random; (e) rejected-program histories agree with the abstract machine.",
        ref="DESIGN.md §6/C17", note=MOD_NOTE + "Hash-seed and fresh-process independence are facts about CPython (set/dict iteration) that the model cannot exhibit: they are covered by the seed sweep only (partial on that clause). Threads are outside the property."),
    "C01": dict(engine="coq-lang",
        technique="Coq theorem: lowering preserves the quantum-classical process (given the per-gate theorems C05/C06) + the inlining clause by correspondence with the visitor model and the reference semantics, and a branching state-vector oracle on real output",
        text="Theorem (Process.v): over any state space with an equivalence 'equal up to a global phase' respected by the operations, if every library-gate application is lowered to a circuit with the same meaning (discharged for all real parameters by C05_partial / C06_library_inverse), then for every source-level trace -- gates, measurements, resets, measurement-conditioned blocks nested to any depth -- the lowered program yields, from equivalent initial configurations, the same number of outcome branches with pairwise equivalent configurations. The inlining clause (the emitted statements are the lowering of the trace the reference semantics executes; accepted programs are accepted) is checked on every run: real unroll() vs the visitor model vs the reference semantics Spec.v on random programs using every inlining mechanism more than once (custom gates nested and parameterised, subroutines with qubit and classical arguments, loops, compile-time branches, switches, aliases, broadcasting, slices, modifiers), and independently of both models the fully unrolled program is simulated against the same program with its library gates kept opaque and read as their defining unitaries (all measurement outcome patterns, equality up to phase per branch).",
        ref="DESIGN.md §6/C01",
        note=LANG_NOTE + "Not a theorem: the refinement of the visitor model to the reference semantics (unroll_refines_spec); it rests on the correspondence, with the structural theorems of C02, C03, C06, C07, C08, C18 as its proved fragments. The process theorem is abstract (Section variables for the state space); its concrete instance is exercised by the simulator. Programs with run-time classical data flow outside static_ok are judged by the oracles only. xx_plus_yy/xy/ms are excluded from the kept-gate oracle (C05 known findings)."),
    "C02": dict(
        engine="coq-lang",
        technique="Coq theorems on the visitor model's operand resolution + exact correspondence with pyqasm on enumerated index/broadcast/alias/subroutine shapes",
        text="Theorems (all sizes, bounds, steps): a slice selects exactly the Python range in order and stays inside the register once its ends are validated; whole registers resolve to 0..size-1; out-of-range indices are rejected; broadcasting splits into consecutive groups of the gate's arity losing nothing; an operation with a repeated operand is never accepted. They are about the model; the model is tied to the code by running both on every (size<=3/5, index form, bounds) combination, broadcast shapes, every subroutine-argument shape and random basis-gate programs with aliases/loops/subroutines, comparing emitted statements exactly. A disagreement is reported as a C02 violation when the per-bit operation sequences differ.",
        ref="DESIGN.md §6/C02",
        note=LANG_NOTE + "The full refinement to a reference semantics (per-bit sequence equality as a theorem) is not proved; that clause rests on the correspondence."),
    "C04": dict(
        engine="coq-lang",
        technique="Coq theorems (one per error class) on the visitor model + exact correspondence with pyqasm over the (error class x syntactic context) product",
        text="Twenty theorems state, for the model of the visitor, that each catalogue situation (undeclared / uninitialised / redeclared / keyword names, assignment to constants, out-of-range and duplicated operands, values outside the declared range, duplicate gate/subroutine/include definitions, unsupported statements, undeclared subroutine and argument counts, measurement without target, the OpenQASM 2 whitelist) makes the visit fail with ValidationError and that statement sequences propagate the failure. The model is tied to the code by running both on 111 error classes x 13 syntactic contexts (top level, if/else arms, first loop iteration, switch case/default, subroutine body and blocks inside it, measurement-conditioned block), one injected error each; independently of the model, every such program must be rejected with ValidationError by validate() and by unroll().",
        ref="DESIGN.md §6/C04, Appendix A",
        note=LANG_NOTE + "The theorems are per check site; the global statement 'no program containing a catalogue error is accepted' is established on the enumerated product, not as one theorem."),
    "C08": dict(
        engine="coq-lang",
        technique="Coq theorems on the model's scope machinery and loop ranges + exact correspondence with pyqasm on enumerated ranges, scope shapes and call sequences",
        text="Theorems: for-loop ranges are the inclusive arithmetic progression for either step sign, in order; leaving a block restores the scope/context stacks exactly; a declaration inside a block dies with it and leaves enclosing scopes untouched; the shadowing declaration is what is read inside; a block reads enclosing variables; a subroutine body cannot see the caller's non-constant variables but sees global constants. Correspondence: all ranges |a|,|b|<=3 x steps, all placements of declare/read/write over 19 scope shapes, all 2-3 call sequences over the same gate/subroutine definitions, random control-flow programs. An independent oracle recomputes loop iteration values.",
        ref="DESIGN.md §6/C08",
        note=LANG_NOTE + "Known deviations of the unchanged code that the model reproduces (gate bodies resolve free names in the caller's innermost scope; global constants invisible in blocks inside subroutines; both arms of a measurement-conditioned if share a scope) are listed in DESIGN.md §8."),
    "C09": dict(
        engine="coq-lang",
        technique="Coq theorems (depth recurrence = longest chain, for every event list; the model's four depth updates are that recurrence) + correspondence of depth() with the model and with the critical path of the reference trace",
        text="Theorems, for every event list of any length: no chain of operations pairwise-consecutively sharing a qubit or bit is longer than the computed depth, and some chain attains it (per resource and for the circuit maximum); the visitor model's updates for a library-gate group, a barrier statement, a reset and a measurement pair are exactly that recurrence step on the event they stand for (measurement synchronises qubit and target bit). Tie: the model's depth and real depth() are compared exactly on random circuits (basis and library gates, broadcast, custom gates, pow, loops, subroutines, measurement-conditioned blocks); independently the Gallina specification computes the critical path of the reference trace (one step per source-level library-gate application, measurement, reset, barrier statement) and must equal depth(). History independence is exercised by random interleavings of validate/unroll/depth/queries before depth().",
        ref="DESIGN.md §3.4, §6/C09",
        note=LANG_NOTE + "The statement 'the event stream of an arbitrary program is one event per source-level operation' is by construction of the model/specification and is tied to the code by the correspondence, not proved as a refinement theorem. History independence across transformations is the module layer's (C16) business; here only non-transforming histories are explored."),
    "C10": dict(engine="coq-module",
        technique="Coq theorems on the abstract machine of the module API (answers are functions of the current program; queries transparent in any history) + exact correspondence of real call histories with the machine",
        text="Theorems: every count/flag/depth/validate answer of the machine depends on the current program only; validate/unroll/depth/queries keep the program, so repeating them in any number and order, interleaved with transformations of any module, changes no answer (the final world equals that of the history with the queries deleted); after remove_measurements/remove_barriers no statement of the kind is left at any depth; num_qubits after remove_idle_qubits is the number of declared qubits that are used; reversal and population keep the register tables. Tie: call histories that query counts and flags twice before and after every transformation, on every module, run on real pyqasm and on the machine.",
        ref="DESIGN.md §3.5, §6/C10, Appendix B", note=MOD_NOTE),
    "C11": dict(engine="coq-module",
        technique="Coq theorems about the pure function remove_idle (order-preserving bijective renumbering onto initial segments, no idle qubit remains, frame) + correspondence of remove_idle_qubits histories with the machine",
        text="Theorems for every flat program with literal declarations: no declared qubit of the result is idle; every used qubit is kept inside its shrunk register; survivors are renumbered injectively, in their original order, onto 0..k-1 (rank_onto); registers keep as many qubits as were used and empty ones are undeclared; every operation, also inside conditional blocks, refers to the renumbered qubit; classical registers, order/kind/parameters of operations unchanged; num_qubits = number of used declared qubits. Tie: remove_idle_qubits (in place or not, after validate/unroll/depth/queries, repeated) on programs with idle qubits in every position, compared output by output with the machine.",
        ref="DESIGN.md §6/C11", note=MOD_NOTE),
    "C12": dict(engine="coq-module",
        technique="Coq theorems about the pure function reverse_qubits (involution, operand map i -> size-1-i at every depth, frame) + correspondence of reverse_qubit_order histories with the machine",
        text="Theorems for every program: reverse_qubits is an involution; the n-th statement's qubits (also inside conditional blocks) are those of the original mapped by i -> size-1-i of the same register; declarations, classical operands, parameters, order and length unchanged. Tie: reverse_qubit_order once and twice, with unroll in between, in place or not, on programs with decomposed gates (shared operand objects), gates across registers of different sizes, nested blocks.",
        ref="DESIGN.md §6/C12", note=MOD_NOTE),
    "C13": dict(engine="coq-module",
        technique="Coq theorems about populate (appends exactly one id per idle qubit, no idle afterwards, idempotent) + correspondence of populate_idle_qubits histories with the machine",
        text="Theorems for every flat program: populate appends map id_gate (idle_qubits p) and leaves the prefix untouched; idle = declared and touched by no operation at any depth; afterwards no qubit is idle; a second call adds nothing; registers unchanged; after remove_idle there is nothing to populate. Tie: populate_idle_qubits after validate/unroll/other transformations, once and twice, followed by remove_idle_qubits, on programs that use qubits only in later loop iterations, subroutines or conditionals.",
        ref="DESIGN.md §6/C13", note=MOD_NOTE + "That an id gate acts as the identity is C05's theorem for `id`; 'the circuit's action is unchanged' is not restated here."),
    "C14": dict(engine="coq-module",
        technique="Coq theorems about remove_kind (nothing of the kind left at any depth; the other leaf statements and the block structure are exactly preserved) + correspondence of remove_* histories with the machine",
        text="Theorems for every program and nesting depth: after remove_kind k no statement of kind k remains; the remaining leaf statements are exactly the leaf statements not of kind k, in order and untouched; conditions, loop headers and definitions are unchanged; a program without the kind is returned unchanged; idempotent; the machine's has_* answer afterwards is false. Tie: each remover before/after unroll/validate/queries, in place or not, followed by the flag, depth and dumps, on programs with measurements/barriers/includes at every nesting position.",
        ref="DESIGN.md §6/C14", note=MOD_NOTE + "depth() after removal equals the depth of the remaining circuit by construction of the machine (depth is computed from the current program) and is compared on every history."),
    "C15": dict(engine="coq-module",
        technique="Coq theorems on the machine (a non-in-place call leaves the world as it was and appends the in-place effect on a copy; calls on one module never change another) + two-module call histories against real pyqasm",
        text="Theorems for every world and call: with in_place=False or copy() the existing modules are exactly what they were and the new module is what the in-place call makes of a copy; a call on module i never changes module j. Tie: histories that create modules by every transformation with in_place=False and by copy(), then call transformations and queries on either module, and observe every module at the end.",
        ref="DESIGN.md §6/C15", note=MOD_NOTE),
    "C16": dict(engine="coq-module",
        technique="Coq theorems on the machine (run of a concatenation is the composition of runs; queries transparent; pure effects commute/idempotent) + exhaustive pairs/triples and random call sequences against real pyqasm",
        text="Theorems: the machine's run over h1++h2 is the composition of its runs; validate/depth/queries/dumps anywhere change nothing; unroll keeps the program; remove/populate idempotent, reverse involutive, populate after remove_idle is the identity; calls on other modules do not matter. Tie: every ordered pair (thorough: triple) of in-place transformations with and without an interleaved query, and random sequences up to length 8 (12) over one or several modules.",
        ref="DESIGN.md §6/C16", note=MOD_NOTE),
}

ORDER = ["C%02d" % i for i in range(1, 21)]
checks = []
for pid in ORDER:
    if pid not in CLAIMED:
        continue
    c = CLAIMED[pid]
    checks.append({
        "property_id": pid,
        "quick_cmd": "./check %s --tier quick" % pid,
        "thorough_cmd": "./check %s --tier thorough" % pid,
        "evidence_file": "evidence/%s.json" % pid,
        "replay_cmd_template": "./check %s --replay {path}" % pid,
        "engine": c["engine"],
        "technique": c["technique"],
        "level_claimed": {"category": "proof", "text": c["text"], "design_ref": c["ref"]},
        "level_note": c["note"],
    })
m = {
    "version": 1,
    "setup_cmd": "./setup.sh",
    "hooks": {"guard": "QBRAID_PYQASM_VERIF",
              "enable": "export QBRAID_PYQASM_VERIF=1 (no hook commit exists: every observation is through the public API)",
              "baseline_off_cmd": "cd /repo && /venv/bin/python -m pytest -ra -q -p no:cacheprovider --timeout=900 --continue-on-collection-errors",
              "source_commits": [], "add_only": True},
    "engines": [
        {"name": "coq-gates", "path": "coq/Gates", "serves_properties": ["C05", "C06"],
         "kind_free_text": "Coq 8.16.1: symbolic cyclotomic-Laurent ring, reflection-based decision procedure with soundness theorem into R; model regenerated from maps.py by translator/maps2coq.py"},
        {"name": "coq-module", "path": "coq/Module", "serves_properties": [p for p in ORDER if p in CLAIMED and CLAIMED[p]["engine"] == "coq-module"],
         "kind_free_text": "Coq 8.16.1: abstract machine of the module API + pure transformation functions with theorems; correspondence by generated call histories evaluated with vm_compute against real pyqasm modules"},
        {"name": "coq-text", "path": "coq/Text", "serves_properties": ["C20"],
         "kind_free_text": "Coq 8.16.1: model of the validate CLI with the verdict theorem; correspondence by running the CLI as a process on generated trees"},
        {"name": "coq-lang", "path": "coq/Lang", "serves_properties": [p for p in ORDER if p in CLAIMED and CLAIMED[p]["engine"] == "coq-lang"],
         "kind_free_text": "Coq 8.16.1: executable model of the visitor (Unroll.v) with theorems; correspondence by generated case files evaluated with vm_compute against real pyqasm"},
    ],
    "checks": checks,
    "not_applicable": [{"property_id": p["id"], "reason": "check not built yet in this round; will be claimed once its model, theorems and correspondence exist (no technique switch intended)"}
                       for p in props if p["id"] not in CLAIMED],
    "notes": "Technique family: machine-checked proof in Coq 8.16.1. See DESIGN.md.",
}
json.dump(m, open(os.path.join(ROOT, "MANIFEST.json"), "w"), indent=1)
print("claimed:", [c["property_id"] for c in checks])
