#!/bin/sh
# usage: mutant_run.sh <seeded-id> <prop> [<prop>...]
# Runs the quick checks against a scratch worktree of /repo HEAD with seeded/<id>/patch.diff applied
# (VERIF_REPO points the checks at it; /repo itself is not touched; evidence goes to a scratch dir).
# The Coq tree is copied too (VERIF_COQ), so regenerated files and rebuilt proofs never touch the coq directory.
VH="$(cd "$(dirname "$0")/.." && pwd)"   # this copy of /verif (a vp-run snapshot works too)
ID="$1"; shift
W=/tmp/mw/$ID; EV=/tmp/mw/$ID.ev; CQ=/tmp/mw/$ID.coq
mkdir -p /tmp/mw; rm -rf "$EV" "$CQ"; cp -a $VH/coq "$CQ"
git -C /repo worktree add -q "$W" HEAD || exit 9
cp /repo/src/pyqasm/accelerate/linalg.c /repo/src/pyqasm/accelerate/*.so "$W/src/pyqasm/accelerate/" 2>/dev/null
(cd "$W" && (git apply $VH/seeded/$ID/patch.diff 2>/dev/null || patch -p1 -s -F3 < $VH/seeded/$ID/patch.diff)) || { echo "$ID: patch does not apply"; git -C /repo worktree remove --force "$W"; exit 2; }
for prop in "$@"; do
  out=$(cd "$VH" && VERIF_REPO="$W" VERIF_EVIDENCE="$EV" VERIF_COQ="$CQ" ./check "$prop" --tier quick 2>&1); rc=$?
  echo "== $ID $prop exit=$rc $(echo "$out" | grep -E "VIOLATION" | head -2 | tr '\n' ' ')"
  echo "$out" | grep -E "Traceback|Error" | head -3
done
git -C /repo worktree remove --force "$W"; rm -rf "$CQ"
