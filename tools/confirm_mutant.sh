#!/bin/sh
# usage: confirm.sh <mutdir>   (dir with patch.diff, demo.py)
D="$1"; W=/tmp/cw_$$
git -C /repo worktree add -q $W HEAD || exit 9
cp /repo/src/pyqasm/accelerate/linalg.c /repo/src/pyqasm/accelerate/*.so $W/src/pyqasm/accelerate/ 2>/dev/null
cd $W
PYTHONPATH=$W/src /venv/bin/python $D/demo.py >/dev/null 2>&1; clean=$?
if git apply $D/patch.diff 2>/dev/null || patch -p1 -s -F3 < $D/patch.diff >/dev/null 2>&1; then ap=ok; else ap=FAIL; fi
suite=$(PYTHONPATH=$W/src /venv/bin/python -m pytest -q -p no:cacheprovider --timeout=900 2>&1 | tail -1)
PYTHONPATH=$W/src /venv/bin/python $D/demo.py >/dev/null 2>&1; mut=$?
cd /; git -C /repo worktree remove --force $W
echo "$D apply=$ap clean_demo=$clean mutated_demo=$mut suite=[$suite]"
