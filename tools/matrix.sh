#!/bin/sh
# usage: matrix.sh [ids...]  -- every seeded change against the quick check of its own property, 4 at a time
VH="$(cd "$(dirname "$0")/.." && pwd)"   # this copy of /verif (a vp-run snapshot works too)
cd "$VH"
IDS="${*:-$(ls seeded | grep -v _retired)}"
for id in $IDS; do echo "$id ${id%_*}"; done | xargs -P4 -L1 sh -c 'tools/mutant_run.sh $0 $1' 2>&1 | grep "^=="
