#!/bin/sh
# usage: seed_sweep.sh <first-seed> <last-seed> [props...]   -- quick checks over several seeds on the unchanged tree,
# in a scratch copy of the Coq tree and a scratch evidence directory; prints every VIOLATION line
VH="$(cd "$(dirname "$0")/.." && pwd)"   # this copy of /verif (a vp-run snapshot works too)
A=$1; B=$2; shift 2
PROPS="${*:-$(python3 -c "import json;print(' '.join(c['property_id'] for c in json.load(open('$VH/MANIFEST.json'))['checks']))")}"
CQ=/tmp/sweep.$$.coq; EV=/tmp/sweep.$$.ev
cp -a $VH/coq $CQ
for s in $(seq $A $B); do
  for p in $PROPS; do
    out=$(cd "$VH" && VERIF_SEED=$s VERIF_COQ=$CQ VERIF_EVIDENCE=$EV ./check $p --tier quick 2>&1); rc=$?
    [ $rc -ne 0 ] && { echo "seed=$s $p exit=$rc"; echo "$out" | grep -E "VIOLATION|Traceback|Error" | head -3; mkdir -p /tmp/sweep_keep; cp $EV/replay/${p}_* /tmp/sweep_keep/ 2>/dev/null; }
  done
  echo "seed $s done"
done
rm -rf $CQ $EV
