#!/bin/sh
# usage: keep_mutant.sh <srcdir with patch.diff demo.py meta.json> <seeded-id>
# confirms against /repo HEAD in a scratch worktree and stores under seeded/<id>
SRC="$1"; ID="$2"
R=$(/verif/tools/confirm_mutant.sh "$SRC"); echo "$R"
echo "$R" | grep -q "apply=ok clean_demo=0 mutated_demo=1 suite=\[1 failed, 327 passed" || { echo "NOT CONFIRMED"; exit 1; }
mkdir -p /verif/seeded/$ID; cp "$SRC/patch.diff" "$SRC/demo.py" /verif/seeded/$ID/
python3 - "$SRC" "$ID" "$R" <<'PY'
import json,sys
src,id,r=sys.argv[1:4]
m=json.load(open(src+'/meta.json')); m['breaks_property']=m.get('property',id.split('_')[0])
head=__import__('subprocess').run(['git','-C','/repo','rev-parse','--short','HEAD'],capture_output=True,text=True).stdout.strip()
m['confirmed']={'against':'/repo HEAD %s in a scratch worktree (removed afterwards)'%head,'ran':['demo.py unpatched: exit 0','git apply patch.diff: ok','pytest -q -p no:cacheprovider with the patch: 327 passed, 1 failed (test_main_version_flag fails on the unchanged tree too)','demo.py patched: exit 1'],'raw':r}
json.dump(m,open('/verif/seeded/%s/meta.json'%id,'w'),indent=1)
PY
