#!/venv/bin/python
"""Line coverage of src/pyqasm by the programs and call histories of the quick tier (seed 0): which lines of the
implementation no generated case reaches (blind spots of the correspondence).  usage: tools/cov.py [out.txt]"""
import os, sys, random, logging, importlib
HERE = os.path.dirname(os.path.abspath(__file__))
sys.path.insert(0, os.path.join(HERE, "..", "harness"))
sys.path.insert(0, "/repo/src")
logging.disable(logging.CRITICAL)
import coverage
cov = coverage.Coverage(source=["/repo/src/pyqasm"], data_file=None, branch=("--branch" in sys.argv))
cov.start()
import pyqasm  # noqa
import langcorr, modcorr, modcheck  # noqa
n = 0
for prop in ["c01", "c02", "c03", "c04", "c06", "c07", "c08", "c09", "c18", "c19"]:
    mod = importlib.import_module("check_" + prop)
    try:
        cs = mod.cases("quick", 0)
    except Exception as e:
        print("skip", prop, e)
        continue
    for c in cs:
        langcorr.run_impl(c["src"], c.get("ext"))
        n += 1
for prop in ["c10", "c11", "c12", "c13", "c14", "c15", "c16"]:
    mod = importlib.import_module("check_" + prop)
    rnd = random.Random(3)
    cs = mod.make_cases(rnd, "quick", lambda k, profile=None: modcheck.programs(rnd, min(k, 40), profile))
    for c in cs[::3]:
        try:
            modcorr.run_real(c["src"], c["hist"])
        except Exception:
            pass
        n += 1
cov.stop()
args = [a for a in sys.argv[1:] if not a.startswith("--")]
out = args[0] if args else "/tmp/cov.txt"
with open(out, "w") as fh:
    cov.report(file=fh, show_missing=True, skip_empty=True)
print("cases", n, "->", out)
