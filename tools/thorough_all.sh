#!/bin/sh
# every thorough check once on the unchanged tree, in a scratch Coq tree and evidence directory
VH="$(cd "$(dirname "$0")/.." && pwd)"   # this copy of /verif (a vp-run snapshot works too)
CQ=/tmp/thor.$$.coq; EV=/tmp/thor.$$.ev
cp -a $VH/coq $CQ
for p in C01 C02 C03 C04 C05 C06 C07 C08 C09 C10 C11 C12 C13 C14 C15 C16 C17 C18 C19 C20; do
  t0=$(date +%s)
  out=$(cd "$VH" && VERIF_COQ=$CQ VERIF_EVIDENCE=$EV ./check $p --tier thorough 2>&1); rc=$?
  echo "$p exit=$rc $(( $(date +%s)-t0 ))s $(echo "$out" | grep -E "VIOLATION|Traceback" | head -3 | tr '\n' ' ')"
  [ $rc -ne 0 ] && { mkdir -p /tmp/thor_keep; cp $EV/replay/${p}_* /tmp/thor_keep/ 2>/dev/null; }
done
rm -rf $CQ $EV
