#!/bin/sh
# usage: harmless_run.sh <patch.diff> <tag> <prop> [<prop>...]
# Applies a behaviour-preserving change of pyqasm in a scratch worktree of /repo HEAD and runs the quick checks against
# it: every check must still pass (exit 0, no VIOLATION line).  Used to measure false alarms under harmless rewrites.
VH="$(cd "$(dirname "$0")/.." && pwd)"
PATCH="$1"; ID="$2"; shift; shift
W=/tmp/mw/$ID; EV=/tmp/mw/$ID.ev; CQ=/tmp/mw/$ID.coq
mkdir -p /tmp/mw; rm -rf "$EV" "$CQ"; cp -a $VH/coq "$CQ"
git -C /repo worktree add -q "$W" HEAD || exit 9
cp /repo/src/pyqasm/accelerate/linalg.c /repo/src/pyqasm/accelerate/*.so "$W/src/pyqasm/accelerate/" 2>/dev/null
(cd "$W" && git apply "$PATCH") || { echo "$ID: patch does not apply"; git -C /repo worktree remove --force "$W"; exit 2; }
for prop in "$@"; do
  out=$(cd "$VH" && VERIF_REPO="$W" VERIF_EVIDENCE="$EV" VERIF_COQ="$CQ" ./check "$prop" --tier quick 2>&1); rc=$?
  echo "== $ID $prop exit=$rc $(echo "$out" | grep -E "VIOLATION" | head -2 | tr '\n' ' ')"
  echo "$out" | grep -E "Traceback|Error" | head -3
done
git -C /repo worktree remove --force "$W"; rm -rf "$CQ"
