#!/bin/sh
# usage: mkwt.sh <dir>   -- scratch worktree of /repo HEAD with the (git-ignored) compiled extension copied in
set -e
git -C /repo worktree add -q "$1" HEAD
cp /repo/src/pyqasm/accelerate/linalg.c /repo/src/pyqasm/accelerate/*.so "$1/src/pyqasm/accelerate/"
