#!/bin/sh
# usage: soak.sh <first-seed> <last-seed> [props...]  -- THOROUGH checks over several seeds on the unchanged tree (scratch Coq tree / evidence)
VH="$(cd "$(dirname "$0")/.." && pwd)"   # this copy of /verif (a vp-run snapshot works too)
A=$1; B=$2; shift 2
PROPS="${*:-C01 C02 C03 C04 C06 C07 C08 C09 C18 C19 C10 C11 C12 C13 C14 C15 C16 C17 C20 C05}"
CQ=/tmp/soak.$$.coq; EV=/tmp/soak.$$.ev
cp -a $VH/coq $CQ
for s in $(seq $A $B); do
  for p in $PROPS; do
    out=$(cd "$VH" && VERIF_SEED=$s VERIF_COQ=$CQ VERIF_EVIDENCE=$EV ./check $p --tier thorough 2>&1); rc=$?
    [ $rc -ne 0 ] && { echo "seed=$s $p exit=$rc"; echo "$out" | grep -E "VIOLATION|Traceback|Error" | head -3; mkdir -p /tmp/soak_keep; for f in $EV/replay/${p}_*; do cp $f /tmp/soak_keep/s${s}_$(basename $f) 2>/dev/null; done; }
  done
  echo "seed $s done"
done
rm -rf $CQ $EV
