#!/bin/sh
# independent re-check of every compiled property file and all it depends on (takes ~10 min); output kept in COQCHK.txt
cd /verif/coq && timeout 3000 coqchk -silent -o -Q . Verif $(for i in 01 02 03 04 05 06 07 08 09 10 11 12 13 14 15 16 17 18 19 20; do echo Verif.Props.C$i; done) > /verif/COQCHK.txt 2>&1; echo "exit=$?" >> /verif/COQCHK.txt
