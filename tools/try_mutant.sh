#!/bin/sh
# usage: try_mutant.sh <patch.diff> <prop> [<prop>...]
# apply to /repo, run the quick checks, always revert; evidence files of the clean tree are preserved
P="$1"; shift
BK=$(mktemp -d /tmp/evbk.XXXXXX)
cp -a /verif/evidence/. "$BK"/
(git -C /repo apply "$P" 2>/dev/null || (cd /repo && patch -p1 -s -F3 < "$P")) || { echo "patch does not apply"; rm -rf "$BK"; exit 2; }
for prop in "$@"; do
  out=$(cd /verif && ./check "$prop" --tier quick 2>&1); rc=$?
  echo "== $prop exit=$rc"; echo "$out" | grep -E "VIOLATION|Traceback|Error" | head -4
done
git -C /repo checkout -- .
rm -rf /verif/evidence && mkdir -p /verif/evidence && cp -a "$BK"/. /verif/evidence/ && rm -rf "$BK"
