"""SPECIFICATION (trusted): the defining unitary of every gate name pyqasm recognises.

Single source for (a) coq/Gates/GateSpecGen.v (Gallina `mexp` matrices read through
Mexp.interpC) and (b) the numeric evaluator used when searching for a failing input.

Convention: the first operand of a gate is the most significant bit of the matrix index.
Definitions quoted from Qiskit (little-endian) are written in Qiskit's order and transported
with `little_endian(...)`, which bit-reverses row and column indices.

Sources: OpenQASM 3 stdgates.inc (Pauli/Clifford/T/sx, rx ry rz p U, cx cy cz cp crx cry crz ch cu
swap ccx cswap); qelib1.inc / Qiskit circuit library (u2, u3, cu1, cu3, csx, rxx, ryy, rzz, iswap,
rccx, c3sx, c4x, ecr, xx_plus_yy); Amazon Braket (xy, pswap, cphaseshift00/01/10, gpi, gpi2, prx,
v, vi, si, ti); `ms` is the matrix maps.py itself builds (IonQ turns) and is numeric-only.
"""
from fractions import Fraction as Fr
import cmath
import math


class Aff:
    """sum_i c_i * theta_i + p * pi"""

    def __init__(self, coeffs=None, pi=Fr(0)):
        self.c = dict(coeffs or {})
        self.p = Fr(pi)

    @staticmethod
    def var(i):
        return Aff({i: Fr(1)})

    def __add__(self, o):
        o = _aff(o)
        c = dict(self.c)
        for k, v in o.c.items():
            c[k] = c.get(k, Fr(0)) + v
        return Aff(c, self.p + o.p)

    __radd__ = __add__

    def __neg__(self):
        return Aff({k: -v for k, v in self.c.items()}, -self.p)

    def __sub__(self, o):
        return self + (-_aff(o))

    def __rsub__(self, o):
        return _aff(o) - self

    def __mul__(self, k):
        k = Fr(k)
        return Aff({a: v * k for a, v in self.c.items()}, self.p * k)

    __rmul__ = __mul__

    def __truediv__(self, k):
        return self * (Fr(1) / Fr(k))

    def num(self, vals):
        return sum(float(v) * vals[k] for k, v in self.c.items()) + float(self.p) * math.pi

    def coq(self):
        n = max(self.c.keys(), default=-1) + 1
        qs = "; ".join(_q(self.c.get(i, Fr(0))) for i in range(n))
        return "(mkAff [%s] %s 0)" % (qs, _q(self.p))


def _aff(x):
    if isinstance(x, Aff):
        return x
    if x == 0:
        return Aff()
    raise TypeError("only 0 may be used as a bare angle constant: %r" % (x,))


def _q(f):
    f = Fr(f)
    return "(%d # %d)" % (f.numerator, f.denominator) if f >= 0 else "((%d) # %d)" % (f.numerator, f.denominator)


PI = Aff(pi=1)


class M:
    def __init__(self, kind, *a):
        self.k, self.a = kind, a

    def __add__(self, o):
        return M("add", self, _m(o))

    __radd__ = __add__

    def __sub__(self, o):
        return M("add", self, M("neg", _m(o)))

    def __neg__(self):
        return M("neg", self)

    def __mul__(self, o):
        return M("mul", self, _m(o))

    def __rmul__(self, o):
        return M("mul", _m(o), self)

    def num(self, vals):
        k, a = self.k, self.a
        if k == "q":
            return complex(float(a[0]))
        if k == "i":
            return 1j
        if k == "rs2":
            return complex(1 / math.sqrt(2))
        if k == "cis":
            return cmath.exp(1j * a[0].num(vals))
        if k == "cos":
            return complex(math.cos(a[0].num(vals)))
        if k == "sin":
            return complex(math.sin(a[0].num(vals)))
        if k == "add":
            return a[0].num(vals) + a[1].num(vals)
        if k == "mul":
            return a[0].num(vals) * a[1].num(vals)
        if k == "neg":
            return -a[0].num(vals)
        raise ValueError(k)

    def coq(self):
        k, a = self.k, self.a
        if k == "q":
            return "(MQ %s)" % _q(a[0])
        if k == "i":
            return "MI"
        if k == "rs2":
            return "MRs2"
        if k in ("cis", "cos", "sin"):
            return "(M%s %s)" % (k.capitalize(), a[0].coq())
        if k in ("add", "mul"):
            return "(M%s %s %s)" % (k.capitalize(), a[0].coq(), a[1].coq())
        return "(MNeg %s)" % a[0].coq()


def _m(x):
    if isinstance(x, M):
        return x
    return M("q", Fr(x))


I = M("i")
RS2 = M("rs2")
ZERO = _m(0)
ONE = _m(1)


def cos(a):
    return M("cos", _aff(a))


def sin(a):
    return M("sin", _aff(a))


def expi(a):
    return M("cis", _aff(a))


def mat(rows):
    return [[_m(x) for x in r] for r in rows]


def eye(d):
    return [[ONE if i == j else ZERO for j in range(d)] for i in range(d)]


def ctrl(U):
    """control on a new first (most significant) qubit"""
    d = len(U)
    return [[(ONE if i == j else ZERO) for j in range(d)] + [ZERO] * d for i in range(d)] + \
           [[ZERO] * d + list(U[i]) for i in range(d)]


def diag(*xs):
    d = len(xs)
    return [[_m(xs[i]) if i == j else ZERO for j in range(d)] for i in range(d)]


def perm(d, f):
    return [[ONE if i == f(j) else ZERO for j in range(d)] for i in range(d)]


def little_endian(U):
    d = len(U)
    k = d.bit_length() - 1

    def rev(x):
        return int(format(x, "0%db" % k)[::-1], 2) if k else 0
    return [[U[rev(i)][rev(j)] for j in range(d)] for i in range(d)]


th, ph, la, ga = Aff.var(0), Aff.var(1), Aff.var(2), Aff.var(3)

X = mat([[0, 1], [1, 0]])
Y = mat([[0, -I], [I, 0]])
Z = mat([[1, 0], [0, -1]])
H = mat([[RS2, RS2], [RS2, -RS2]])
S = mat([[1, 0], [0, I]])
SDG = mat([[1, 0], [0, -I]])
T = mat([[1, 0], [0, expi(PI / 4)]])
TDG = mat([[1, 0], [0, expi(-PI / 4)]])
HALF = _m(Fr(1, 2))
SX = mat([[HALF * (ONE + I), HALF * (ONE - I)], [HALF * (ONE - I), HALF * (ONE + I)]])
SXDG = mat([[HALF * (ONE - I), HALF * (ONE + I)], [HALF * (ONE + I), HALF * (ONE - I)]])


def RX(a):
    return mat([[cos(a / 2), -I * sin(a / 2)], [-I * sin(a / 2), cos(a / 2)]])


def RY(a):
    return mat([[cos(a / 2), -sin(a / 2)], [sin(a / 2), cos(a / 2)]])


def RZ(a):
    return mat([[expi(-a / 2), 0], [0, expi(a / 2)]])


def P(a):
    return mat([[1, 0], [0, expi(a)]])


def U3(t, p, l):
    return mat([[cos(t / 2), -expi(l) * sin(t / 2)],
                [expi(p) * sin(t / 2), expi(p + l) * cos(t / 2)]])


def scale(c, U):
    return [[c * x for x in r] for r in U]


def PRX(t, p):
    return mat([[cos(t / 2), -I * expi(-p) * sin(t / 2)], [-I * expi(p) * sin(t / 2), cos(t / 2)]])


CX = perm(4, lambda j: {2: 3, 3: 2}.get(j, j))
SWAP = perm(4, lambda j: {1: 2, 2: 1}.get(j, j))
c, s = cos(th / 2), sin(th / 2)

# name -> (number of angle parameters, number of qubits, matrix)
SPECS = {}


def spec(names, nparams, nq, U):
    for n in names.split():
        SPECS[n] = (nparams, nq, U)


spec("id", 0, 1, eye(2))
spec("x not", 0, 1, X)
spec("y", 0, 1, Y)
spec("z", 0, 1, Z)
spec("h", 0, 1, H)
spec("s", 0, 1, S)
spec("sdg si", 0, 1, SDG)
spec("t", 0, 1, T)
spec("tdg ti", 0, 1, TDG)
spec("sx v", 0, 1, SX)
spec("sxdg vi", 0, 1, SXDG)
spec("rx", 1, 1, RX(th))
spec("ry", 1, 1, RY(th))
spec("rz", 1, 1, RZ(th))
spec("p phaseshift u1 U1", 1, 1, P(th))
spec("u U u3 U3", 3, 1, U3(th, ph, la))
spec("u2 U2", 2, 1, U3(PI / 2, th, ph))
spec("prx", 2, 1, PRX(th, ph))
# IonQ native gates (Braket): GPi(phi) = [[0, e^{-i phi}],[e^{i phi}, 0]]
spec("gpi", 1, 1, mat([[0, expi(-th)], [expi(th), 0]]))
# GPi2(phi) = 1/sqrt2 [[1, -i e^{-i phi}], [-i e^{i phi}, 1]]
spec("gpi2", 1, 1, mat([[RS2, -I * RS2 * expi(-th)], [-I * RS2 * expi(th), RS2]]))

spec("cx CX cnot", 0, 2, CX)
spec("cz", 0, 2, ctrl(Z))
spec("cy", 0, 2, ctrl(Y))
spec("ch", 0, 2, ctrl(H))
spec("csx cv", 0, 2, ctrl(SX))
spec("swap", 0, 2, SWAP)
spec("iswap", 0, 2, mat([[1, 0, 0, 0], [0, 0, I, 0], [0, I, 0, 0], [0, 0, 0, 1]]))
spec("pswap", 1, 2, mat([[1, 0, 0, 0], [0, 0, expi(th), 0], [0, expi(th), 0, 0], [0, 0, 0, 1]]))
spec("crx", 1, 2, ctrl(RX(th)))
spec("cry", 1, 2, ctrl(RY(th)))
spec("crz", 1, 2, ctrl(RZ(th)))
spec("cp cphaseshift cu1", 1, 2, ctrl(P(th)))
spec("cu3", 3, 2, ctrl(U3(th, ph, la)))
spec("cu", 4, 2, ctrl(scale(expi(ga), U3(th, ph, la))))
spec("cp00 cphaseshift00", 1, 2, diag(expi(th), 1, 1, 1))
spec("cp01 cphaseshift01", 1, 2, diag(1, expi(th), 1, 1))
spec("cp10 cphaseshift10", 1, 2, diag(1, 1, expi(th), 1))
# exp(-i theta/2 P(x)P)
spec("rxx xx", 1, 2, mat([[c, 0, 0, -I * s], [0, c, -I * s, 0], [0, -I * s, c, 0], [-I * s, 0, 0, c]]))
spec("ryy yy", 1, 2, mat([[c, 0, 0, I * s], [0, c, -I * s, 0], [0, -I * s, c, 0], [I * s, 0, 0, c]]))
spec("rzz zz", 1, 2, diag(expi(-th / 2), expi(th / 2), expi(th / 2), expi(-th / 2)))
# Braket XY(theta)
spec("xy", 1, 2, mat([[1, 0, 0, 0], [0, c, I * s, 0], [0, I * s, c, 0], [0, 0, 0, 1]]))
# Qiskit XXPlusYYGate(theta, beta), in Qiskit's little-endian order
spec("xx_plus_yy", 2, 2, little_endian(mat([[1, 0, 0, 0],
                                            [0, c, -I * s * expi(-ph), 0],
                                            [0, -I * s * expi(ph), c, 0],
                                            [0, 0, 0, 1]])))
# Qiskit ECRGate, little-endian
spec("ecr", 0, 2, little_endian(mat([[0, RS2, 0, I * RS2],
                                     [RS2, 0, -I * RS2, 0],
                                     [0, I * RS2, 0, RS2],
                                     [-I * RS2, 0, RS2, 0]])))
spec("ccx toffoli ccnot", 0, 3, ctrl(CX))
spec("cswap", 0, 3, ctrl(SWAP))
# Qiskit RCCXGate, little-endian
_r = [[ZERO] * 8 for _ in range(8)]
for _i, _j, _v in [(0, 0, ONE), (1, 1, ONE), (2, 2, ONE), (3, 7, -I), (4, 4, ONE), (5, 5, -ONE), (6, 6, ONE), (7, 3, I)]:
    _r[_i][_j] = _v
spec("rccx", 0, 3, little_endian(_r))
spec("c3sx c3sqrtx", 0, 4, ctrl(ctrl(ctrl(SX))))
spec("c4x", 0, 5, ctrl(ctrl(ctrl(ctrl(X)))))

# gates with a numeric-only definition (not affine in their parameters)
NUMERIC_ONLY = {"ms"}


def ms_matrix(phi0, phi1, theta):
    cs, sn = math.cos(math.pi * theta), math.sin(math.pi * theta)
    e = cmath.exp
    return [[cs, 0, 0, -1j * e(-2j * math.pi * (phi0 + phi1)) * sn],
            [0, cs, -1j * e(-2j * math.pi * (phi0 - phi1)) * sn, 0],
            [0, -1j * e(2j * math.pi * (phi0 - phi1)) * sn, cs, 0],
            [-1j * e(2j * math.pi * (phi0 + phi1)) * sn, 0, 0, cs]]


def numeric(name, vals):
    """defining unitary as a list of rows of complex numbers"""
    if name == "ms":
        return ms_matrix(*vals)
    _, _, U = SPECS[name]
    return [[x.num(vals) for x in r] for r in U]


def emit_coq(path):
    out = ["(* GENERATED by spec/gates_spec.py -- the trusted defining unitaries; edit the .py *)",
           "From Coq Require Import String List ZArith QArith.",
           "From Verif Require Import Aexp Mexp.",
           "Import ListNotations.",
           "Open Scope string_scope.",
           "",
           "(* name, (number of angle parameters, number of qubits, matrix) *)",
           "Definition gate_specs : list (string * (nat * nat * list (list mexp))) :=",
           "  ["]
    items = []
    for n, (np_, nq, U) in SPECS.items():
        rows = ";\n      ".join("[" + "; ".join(x.coq() for x in r) + "]" for r in U)
        items.append('   ("%s", (%d%%nat, %d%%nat,\n     [%s]))' % (n, np_, nq, rows))
    out.append(";\n".join(items))
    out.append("  ].")
    open(path, "w").write("\n".join(out) + "\n")


if __name__ == "__main__":
    import sys
    emit_coq(sys.argv[1])
