#!/bin/sh
# Build the whole Coq development from files on disk (offline). Generated files are produced
# from /repo's current maps.py / validator.py and from spec/gates_spec.py.
set -e
HERE="$(cd "$(dirname "$0")" && pwd)"
cd "$HERE"
mkdir -p .cache evidence/replay
/venv/bin/python translator/maps2coq.py "${VERIF_REPO:-/repo}/src/pyqasm/maps.py" coq/Gates/GatesGen.v coq/.maps2coq_report.json
/venv/bin/python spec/gates_spec.py coq/Gates/GateSpecGen.v
/venv/bin/python translator/cast2coq.py "${VERIF_REPO:-/repo}/src/pyqasm/maps.py" "${VERIF_REPO:-/repo}/src/pyqasm/validator.py" coq/Lang/CastGen.v || true
cd coq
coq_makefile -f _CoqProject -o Makefile >/dev/null
timeout 3000 make -j"$(nproc)" 2>&1 | tail -5
